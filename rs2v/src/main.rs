// rs2v: translates the loop-free integer / decision functions of matreex (Layer K) from the Rust source
// into monadic A-normal Gallina.  usage: rs2v <file.rs>... > KernelGen.v
//
// Every generated definition has the form
//     Definition G_<Owner>_<fn> (md : cfg) [(es : Z)] <params> : res <ret> := ...
// where + - * / % on usize go through the machine-integer primitives of Base/Machine.v (so that overflow and
// division by zero are outcomes, not silently total), `?` and early `return` become matches, `&mut self`
// functions return the new `self`, and calls to other translated functions are `let*`-bound in evaluation order.
// Anything outside the supported fragment is emitted as a comment `(*UNSUPPORTED ...*)`, which makes the
// generated file fail to compile: the corresponding proof obligation is then reported as broken.
use quote::ToTokens;
use std::collections::HashMap;
use syn::*;

#[derive(Clone, Debug, PartialEq)]
enum Ty {
    Usize,
    Isize,
    Bool,
    Unit,
    Named(String),
    Opt(Box<Ty>),
    Res(Box<Ty>),
    Tup(Vec<Ty>),
    Unknown,
}

struct FnInfo {
    sig: Signature,
    block: Block,
}

#[derive(Default)]
struct Ctx {
    structs: HashMap<String, Vec<(String, Ty)>>,
    fns: HashMap<(String, String), FnInfo>,
    // #[derive(Default)]: the Gallina value of <Ty>::default()
    defaults: HashMap<String, String>,
    tmp: usize,
}

// Rust identifiers that are constructors / notations in Gallina get a trailing underscore
fn cq(n: &str) -> String {
    match n {
        "left" | "right" | "pair" | "fst" | "snd" | "nil" | "cons" | "Some" | "None" | "true" | "false" | "tt" | "at" | "as" | "in" | "end" | "fix" | "fun" | "forall" | "exists" => {
            if matches!(n, "left" | "right" | "pair" | "nil" | "cons" | "at" | "in" | "end" | "fix" | "fun" | "forall" | "exists") {
                format!("{}_", n)
            } else {
                n.to_string()
            }
        }
        _ => n.to_string(),
    }
}

fn tstr<T: ToTokens>(t: &T) -> String {
    t.to_token_stream().to_string().replace(' ', "")
}

fn conv_ty(t: &Type, owner: &str) -> Ty {
    match t {
        Type::Reference(r) if matches!(&*r.elem, Type::Path(p) if p.path.is_ident("T")) => Ty::Named("RefMut".into()),
        Type::Reference(r) => conv_ty(&r.elem, owner),
        Type::Tuple(tt) if tt.elems.is_empty() => Ty::Unit,
        Type::Tuple(tt) => Ty::Tup(tt.elems.iter().map(|e| conv_ty(e, owner)).collect()),
        Type::Path(p) => {
            let seg = p.path.segments.last().unwrap();
            let id = seg.ident.to_string();
            let arg0 = || -> Ty {
                if let PathArguments::AngleBracketed(a) = &seg.arguments {
                    if let Some(GenericArgument::Type(t)) = a.args.first() {
                        return conv_ty(t, owner);
                    }
                }
                Ty::Unknown
            };
            match id.as_str() {
                "usize" => Ty::Usize,
                "isize" => Ty::Isize,
                "bool" => Ty::Bool,
                "Self" => Ty::Named(owner.into()),
                "Option" => Ty::Opt(Box::new(arg0())),
                "Result" => Ty::Res(Box::new(arg0())),
                // a generic parameter bounded by AsIndex (`I`): the two accessor values
                "I" => Ty::Named("AsIndex".into()),
                // a generic parameter bounded by Into<Shape> (`S`): the shape it converts into
                "S" => Ty::Named("Shape".into()),
                // an element / the initializer closure of the constructors
                "T" => Ty::Named("Elem".into()),
                "F" => Ty::Named("Init".into()),
                // NonZero<usize> is its value (NonZero::new_unchecked is not in the translated fragment)
                "NonZero" => Ty::Usize,
                // the item types of the two mutable vector iterators
                "Item" if owner == "IterVectorsMut" => Ty::Named("IterNthVectorMut".into()),
                "Item" if owner == "IterNthVectorMut" => Ty::Named("RefMut".into()),
                _ => Ty::Named(id),
            }
        }
        _ => Ty::Unknown,
    }
}

fn coq_ty(t: &Ty) -> String {
    match t {
        Ty::Usize | Ty::Isize => "Z".into(),
        Ty::Bool => "bool".into(),
        Ty::Unit => "unit".into(),
        Ty::Named(n) if n == "Elem" => "A".into(),
        Ty::Named(n) if n == "Init" => "(GIndex -> A)".into(),
        Ty::Named(n) if n == "VecT" => "(list A)".into(),
        Ty::Named(n) if n == "Rows" => "(list (list A))".into(),
        Ty::Named(n) => format!("G{}", n),
        Ty::Opt(a) => format!("(option {})", coq_ty(a)),
        Ty::Res(a) => format!("(result {})", coq_ty(a)),
        Ty::Tup(v) => format!("({})", v.iter().map(coq_ty).collect::<Vec<_>>().join(" * ")),
        Ty::Unknown => "_".into(),
    }
}

type Env = HashMap<String, Ty>;

struct Tr<'a> {
    cx: &'a mut Ctx,
    owner: String,
    self_mut: bool,
    uses_es: bool,
    // functions that move elements of `self.data` through raw pointers: `self` is the model's matrix (with its element
    // list), a pointer into the buffer is an element index, and the list is threaded through the pointer operations
    data_mode: bool,
    has_data: bool,
    // `data` is the element vector of `self` itself (a raw pointer into it, or overwrite's loops): no method may be called on self meanwhile
    ptr_live: bool,
    // constructors (construct.rs): no receiver; the result is a model matrix built from an element list
    ctor_mode: bool,
    // the name of the function being translated
    fname: String,
    // the function returns a Result (an early `return Err(..)` may leave a loop)
    ret_result: bool,
    // the drivers of arithmetic.rs: several element types; the element size that matters is the output's (esU)
    arith: bool,
    // `-> &mut Self` in data mode: the function's value is the new matrix
    ret_self: bool,
    // `let mut` locals in scope (data mode): they are threaded through `for` and `loop` bodies together with the element list
    mut_locals: Vec<String>,
    // `let p = v.get_unchecked_mut(i)`: p stands for element i of the local vector v; (vector, frozen index, value read)
    aliases: HashMap<String, (String, String, String)>,
    // inside a `loop`: the tuple of the loop state (`break` / falling off the end of the body yield it)
    loop_state: Option<String>,
}

// the functions of swap.rs translated in data mode
fn data_fn(owner: &str, name: &str) -> bool {
    owner == "Matrix"
        && matches!(
            name,
            "swap_rows"
                | "swap_cols"
                | "swap_major_axis_vectors"
                | "swap_minor_axis_vectors"
                | "iter_nth_major_axis_vector"
                | "iter_nth_minor_axis_vector"
                | "iter_nth_major_axis_vector_unchecked"
                | "iter_nth_minor_axis_vector_unchecked"
                | "iter_nth_major_axis_vector_mut"
                | "iter_nth_minor_axis_vector_mut"
                | "iter_nth_major_axis_vector_unchecked_mut"
                | "iter_nth_minor_axis_vector_unchecked_mut"
                | "iter_nth_row"
                | "iter_nth_col"
                | "iter_nth_row_mut"
                | "iter_nth_col_mut"
                | "transpose"
                | "switch_order"
                | "switch_order_without_rearrangement"
                | "set_order"
                | "set_order_without_rearrangement"
                | "eq"
                | "overwrite"
                | "resize"
                | "get_nth_major_axis_vector"
        )
}

// functions that (transitively) contain the cycle-following `loop` of transpose: they take the element size and the fuel
// construct.rs: the constructors (no receiver; element lists are built with the Vec primitives of Gen/Prelude.v)
fn ctor_fn(owner: &str, name: &str) -> bool {
    owner == "Matrix" && matches!(name, "new" | "with_capacity" | "with_default" | "with_value" | "with_initializer" | "try_from_array" | "try_from_vec" | "try_from_slice" | "from_iter")
}

// arithmetic.rs: the elementwise and scalar drivers.  (implicit element types, parameters, result type); the parameter names
// are the source's, the element types are named by role: L = self's, R = rhs's, S = the scalar's, U = the output's
fn arith_sig(name: &str) -> Option<(&'static str, &'static str, &'static str)> {
    Some(match name {
        "elementwise_operation" | "elementwise_operation_consume_self" => {
            ("{L R U : Type}", "(esU : Z) (self : matrix L) (rhs : matrix R) (op : L -> R -> U)", "(result (matrix U))")
        }
        "elementwise_operation_assign" => ("{L R : Type}", "(self : matrix L) (rhs : matrix R) (op : L -> R -> L)", "(matrix L * result unit)"),
        "scalar_operation" | "scalar_operation_consume_self" => ("{L S U : Type}", "(esU : Z) (self : matrix L) (scalar : S) (op : L -> S -> U)", "(result (matrix U))"),
        "scalar_operation_assign" => ("{L S : Type}", "(self : matrix L) (scalar : S) (op : L -> S -> L)", "(matrix L)"),
        // lib.rs: the simple element-wise functions
        "apply" => ("{L : Type}", "(self : matrix L) (f : L -> L)", "(matrix L)"),
        "map" | "map_ref" => ("{L U : Type}", "(esU : Z) (self : matrix L) (f : L -> U)", "(result (matrix U))"),
        "clear" => ("{L : Type}", "(self : matrix L)", "(matrix L)"),
        "contains" => ("{L : Type}", "(eqT : L -> L -> bool) (self : matrix L) (value : L)", "bool"),
        // the closure of multiplication_like_operation sees two slices; it may be the unchecked dot product of multiply, hence `res`
        "multiplication_like_operation" => (
            "{L R U : Type}",
            "(esL esR esU : Z) (fuel fuel2 : nat) (dflt : U) (self : matrix L) (rhs : matrix R) (op : list L -> list R -> res U)",
            "(result (matrix U))",
        ),
        // mul.rs: the product with the element operators; the free function dot_product is owner "" 
        "multiply" => (
            "{L R U : Type}",
            "(esL esR esU : Z) (fuel fuel2 : nat) (dflt : U) (mul : L -> R -> U) (add : U -> U -> U) (self : matrix L) (rhs : matrix R)",
            "(result (matrix U))",
        ),
        // iter.rs: the element iterators as the list of the items they hand out, in order
        "iter_elements" | "iter_elements_mut" | "into_iter_elements" => ("{L : Type}", "(self : matrix L)", "(list L)"),
        "iter_elements_with_index" | "iter_elements_mut_with_index" | "into_iter_elements_with_index" => ("{L : Type}", "(self : matrix L)", "(list (GIndex * L))"),
        "dot_product" => ("{L R U : Type}", "(mul : L -> R -> U) (add : U -> U -> U) (lhs : list L) (rhs : list R)", "(option U)"),
        _ => return None,
    })
}
fn arith_fn(owner: &str, name: &str) -> bool {
    (owner == "Matrix" && arith_sig(name).is_some() && name != "dot_product") || (owner == "Free" && name == "dot_product")
}

fn fuel_fn(name: &str) -> bool {
    matches!(name, "transpose" | "switch_order" | "set_order")
}

// the row / column views: a view (also a mutable one) is the list of the elements it hands out, in order; such a
// function does not change the matrix by itself
fn view_fn(name: &str) -> bool {
    name.starts_with("iter_nth_") || name == "get_nth_major_axis_vector"
}

fn fn_uses_es(f: &FnInfo) -> bool {
    tstr(&f.block).contains("size_of::<")
}

// functions of the pointer-level iterator machines: element size, alignment and the allocation bounds are parameters
fn ptr_owner(owner: &str) -> bool {
    owner == "IterVectorsMut" || owner == "IterNthVectorMut"
}

// functions that build or drive the pointer-level machines (they take es, al and the allocation bounds)
fn ptr_fn(owner: &str, name: &str) -> bool {
    ptr_owner(owner) || (owner == "Matrix" && matches!(name, "iter_rows_mut" | "iter_cols_mut"))
}

fn has_hook_cfg(attrs: &[Attribute]) -> bool {
    attrs.iter().any(|a| tstr(a).contains("verif-hooks"))
}

impl<'a> Tr<'a> {
    fn fresh(&mut self, base: &str) -> String {
        self.cx.tmp += 1;
        format!("{}{}", base, self.cx.tmp)
    }
    fn ret_of(&self, owner: &str, name: &str) -> Option<Ty> {
        self.cx.fns.get(&(owner.to_string(), name.to_string())).map(|f| match &f.sig.output {
            ReturnType::Default => Ty::Unit,
            ReturnType::Type(_, t) => conv_ty(t, owner),
        })
    }
    fn callee_is_mut(&self, owner: &str, name: &str) -> bool {
        if owner == "Matrix" && view_fn(name) {
            return false;
        }
        self.cx.fns.get(&(owner.to_string(), name.to_string())).map_or(false, |f| {
            f.sig.inputs.iter().any(|a| matches!(a, FnArg::Receiver(r) if r.mutability.is_some() && r.reference.is_some()))
        })
    }
    fn callee_uses_es(&self, owner: &str, name: &str) -> bool {
        self.cx.fns.get(&(owner.to_string(), name.to_string())).map_or(false, fn_uses_es)
    }
    fn block_ty(&self, stmts: &[Stmt], env: &Env) -> Ty {
        match stmts.last() {
            Some(Stmt::Expr(e, None)) => self.ty_of(e, env),
            _ => Ty::Unit,
        }
    }
    fn ty_of(&self, e: &Expr, env: &Env) -> Ty {
        match e {
            Expr::Path(p) if tstr(p) == "C" && env.get("value") == Some(&Ty::Named("Rows".into())) => Ty::Usize,
            Expr::Path(p) => {
                let n = tstr(p);
                if n == "self" {
                    Ty::Named(self.owner.clone())
                } else if n == "isize::MAX" {
                    Ty::Isize
                } else if n == "usize::MAX" {
                    Ty::Usize
                } else {
                    env.get(&n).cloned().unwrap_or(Ty::Unknown)
                }
            }
            Expr::Field(f) => {
                if let Ty::Named(s) = self.ty_of(&f.base, env) {
                    if let Member::Named(id) = &f.member {
                        if let Some(fs) = self.cx.structs.get(&s) {
                            for (n, t) in fs {
                                if n == &id.to_string() {
                                    return t.clone();
                                }
                            }
                        }
                    }
                }
                Ty::Unknown
            }
            Expr::MethodCall(m) => {
                let name = m.method.to_string();
                match self.ty_of(&m.receiver, env) {
                    Ty::Named(s) if s == "NonNull" && (name == "add" || name == "sub") => Ty::Named("NonNull".into()),
                    Ty::Named(s) if s == "DataPtr" && name == "add" => Ty::Named("DataPtr".into()),
                    Ty::Named(s) if s == "NonNull" && name == "addr" => Ty::Usize,
                    Ty::Named(s) if s == "NonNull" && name == "as_mut" => Ty::Named("RefMut".into()),
                    Ty::Named(s) if s == "Elem" && name == "clone" => Ty::Named("Elem".into()),
                    Ty::Named(s) if s == "Vec" && name == "len" => Ty::Usize,
                    Ty::Named(s) if s == "Vec" && name == "as_mut_ptr" => Ty::Named("RawPtr".into()),
                    Ty::Named(s) if s == "Vec" && name == "get_unchecked" => Ty::Named("Elem".into()),
                    Ty::Named(s) if s == "Vec" && name == "contains" => Ty::Bool,
                    Ty::Named(s) if (s == "Rows" || s == "VecT") && name == "len" => Ty::Usize,
                    Ty::Named(s) if s == "Vec" && name == "is_empty" => Ty::Bool,
                    Ty::Named(s) if s == "AsIndex" => Ty::Usize,
                    Ty::Named(s) if s == "Shape" && name == "into" => Ty::Named(s),
                    Ty::Named(s) => self.ret_of(&s, &name).unwrap_or(Ty::Unknown),
                    Ty::Usize if name == "checked_mul" => Ty::Opt(Box::new(Ty::Usize)),
                    Ty::Usize => Ty::Usize,
                    Ty::Isize if name == "unsigned_abs" => Ty::Usize,
                    Ty::Opt(a) if name == "ok_or" => Ty::Res(a),
                    _ => Ty::Unknown,
                }
            }
            Expr::Call(c) => {
                let p = tstr(&c.func);
                if p.starts_with("size_of::<") {
                    return Ty::Usize;
                }
                if p == "NonNull::new_unchecked" || p == "NonNull::dangling" {
                    return Ty::Named("NonNull".into());
                }
                if p == "without_provenance_mut" {
                    return Ty::Named("RawPtr".into());
                }
                if p == "NonZero::new_unchecked" || p == "cmp::min" {
                    return Ty::Usize;
                }
                if p == "dot_product" {
                    return Ty::Opt(Box::new(Ty::Named("Elem".into())));
                }
                if p == "Vec::new" || p == "Vec::with_capacity" {
                    return Ty::Named("VecT".into());
                }
                if let Some(t) = p.strip_suffix("::default") {
                    if self.cx.defaults.contains_key(t) {
                        return Ty::Named(t.to_string());
                    }
                }
                if env.get(&p) == Some(&Ty::Named("Init".into())) || env.get(&p) == Some(&Ty::Named("OpFn".into())) {
                    return Ty::Named("Elem".into());
                }
                if p == "Some" {
                    return Ty::Opt(Box::new(c.args.first().map_or(Ty::Unknown, |a| self.ty_of(a, env))));
                }
                if let Some((o, n)) = p.rsplit_once("::") {
                    let o = if o == "Self" { self.owner.clone() } else { o.split("::<").next().unwrap().split('<').next().unwrap().to_string() };
                    self.ret_of(&o, n).unwrap_or(Ty::Unknown)
                } else {
                    Ty::Unknown
                }
            }
            Expr::Paren(p) => self.ty_of(&p.expr, env),
            Expr::Reference(r) => self.ty_of(&r.expr, env),
            Expr::Cast(c) => conv_ty(&c.ty, &self.owner),
            Expr::Unary(u) => self.ty_of(&u.expr, env),
            Expr::Binary(b) => match b.op {
                BinOp::Lt(_) | BinOp::Le(_) | BinOp::Gt(_) | BinOp::Ge(_) | BinOp::Eq(_) | BinOp::Ne(_) | BinOp::Or(_) | BinOp::And(_) => Ty::Bool,
                _ => self.ty_of(&b.left, env),
            },
            Expr::Tuple(t) => Ty::Tup(t.elems.iter().map(|e| self.ty_of(e, env)).collect()),
            Expr::Try(t) => match self.ty_of(&t.expr, env) {
                Ty::Opt(a) | Ty::Res(a) => *a,
                _ => Ty::Unknown,
            },
            Expr::Match(m) => m.arms.first().map_or(Ty::Unknown, |a| self.ty_of(&a.body, env)),
            Expr::If(i) => self.block_ty(&i.then_branch.stmts, env),
            Expr::Block(b) => self.block_ty(&b.block.stmts, env),
            Expr::Unsafe(b) => self.block_ty(&b.block.stmts, env),
            Expr::Struct(s) => {
                let n = tstr(&s.path);
                Ty::Named(if n == "Self" { self.owner.clone() } else { n })
            }
            Expr::Lit(_) => Ty::Usize,
            Expr::Macro(m) if tstr(&m.mac.path) == "vec" => Ty::Named("VecT".into()),
            _ => Ty::Unknown,
        }
    }
    fn bind_pat(&self, p: &Pat, ty: &Ty, env: &mut Env) -> String {
        match p {
            Pat::Ident(i) => {
                env.insert(i.ident.to_string(), ty.clone());
                cq(&i.ident.to_string())
            }
            Pat::Tuple(t) => {
                let tys: Vec<Ty> = if let Ty::Tup(v) = ty { v.clone() } else { vec![Ty::Unknown; t.elems.len()] };
                format!(
                    "'({})",
                    t.elems.iter().zip(tys).map(|(p, t)| self.bind_pat(p, &t, env).trim_start_matches('\'').to_string()).collect::<Vec<_>>().join(", ")
                )
            }
            Pat::Type(t) => self.bind_pat(&t.pat, ty, env),
            Pat::Wild(_) => "_".into(),
            _ => format!("(*UNSUPPORTED pattern {}*)", tstr(p)),
        }
    }
    // the value the function finally returns
    fn finish(&self, v: String) -> String {
        if self.ctor_mode {
            return format!("Val {}", v);
        }
        if self.data_mode && !self.self_mut {
            return format!("Val {}", v);
        }
        if self.data_mode && self.ret_self {
            let me = if self.has_data { "(set_data self data)" } else { "self" };
            return format!("Val {}", me);
        }
        if self.data_mode {
            let me = if self.has_data { "(set_data self data)" } else { "self" };
            let r = if v == "(Ok self)" { "(Ok tt)".to_string() } else { v };
            return format!("Val ({}, {})", me, r);
        }
        if self.self_mut && v != "self" {
            format!("Val (self, {})", v)
        } else {
            format!("Val {}", v)
        }
    }
    // the loop-carried state in data mode: the `let mut` locals in scope, then the element list
    fn state_vars(&self) -> Vec<String> {
        let mut v = self.mut_locals.clone();
        if self.has_data {
            v.push("data".into());
        }
        v
    }
    fn state_tuple(&self) -> String {
        let v = self.state_vars();
        if v.len() == 1 {
            v[0].clone()
        } else {
            format!("({})", v.join(", "))
        }
    }
    fn state_unpack(&self, from: &str) -> String {
        let v = self.state_vars();
        if v.len() == 1 {
            format!("let {} := {} in", v[0], from)
        } else {
            format!("let '({}) := {} in", v.join(", "), from)
        }
    }
    fn mutates_self(stmts: &[Stmt]) -> bool {
        let t: String = stmts.iter().map(tstr).collect();
        t.contains("self.") && t.contains('=')
    }

    fn block(&mut self, stmts: &[Stmt], env: &mut Env, k: &mut dyn FnMut(&mut Self, String, &mut Env) -> String) -> String {
        if stmts.is_empty() {
            return k(self, "tt".into(), env);
        }
        let (s, rest) = stmts.split_first().unwrap();
        // observation hooks compiled only with the verif-hooks feature are not part of the crate's behaviour
        if let Stmt::Expr(e, _) = s {
            let attrs: &[Attribute] = match e {
                Expr::Call(c) => &c.attrs,
                Expr::MethodCall(c) => &c.attrs,
                Expr::Macro(c) => &c.attrs,
                _ => &[],
            };
            if has_hook_cfg(attrs) {
                return self.block(rest, env, k);
            }
        }
        if self.data_mode {
            // let base = self.data.as_mut_ptr();
            if let Stmt::Local(l) = s {
                if let Some(init) = &l.init {
                    if tstr(&init.expr) == "self.data.as_mut_ptr()" {
                        let name = tstr(&l.pat);
                        env.insert(name.clone(), Ty::Named("DataPtr".into()));
                        self.has_data = true;
                        self.ptr_live = true;
                        return format!("let data := m_data self in\n  let {} := 0 in\n  {}", name, self.block(rest, env, k));
                    }
                }
            }
            if self.arith {
                if let Stmt::Expr(Expr::MethodCall(mc), Some(_)) = s {
                    if tstr(&mc.receiver) == "self.data" && mc.method == "clear" && mc.args.is_empty() {
                        return format!("let self := set_data self vec_new in\n  {}", self.block(rest, env, k));
                    }
                }
            }
            if self.ctor_mode {
                // let mut iter = iter.into_iter();   the rows still to come: the list itself
                if let Stmt::Local(l) = s {
                    if let (Pat::Ident(pi), Some(init)) = (&l.pat, &l.init) {
                        let nm = pi.ident.to_string();
                        if tstr(&init.expr) == format!("{}.into_iter()", nm) && env.get(&nm) == Some(&Ty::Named("Rows".into())) {
                            return self.block(rest, env, k);
                        }
                    }
                    // let Some(row) = iter.next() else { .. };   the first of the remaining rows
                    if let (Pat::TupleStruct(ts), Some(init)) = (&l.pat, &l.init) {
                        if let (Some((_, div)), true) = (&init.diverge, tstr(&ts.path) == "Some" && ts.elems.len() == 1) {
                            if let (Expr::MethodCall(nx), Expr::Block(b)) = (&*init.expr, &**div) {
                                let it = tstr(&nx.receiver);
                                if nx.method == "next" && env.get(&it) == Some(&Ty::Named("Rows".into())) {
                                    let var = tstr(&ts.elems[0]);
                                    let none = self.block(&b.block.stmts, &mut env.clone(), &mut |me2, v, _| me2.finish(v));
                                    env.insert(var.clone(), Ty::Named("VecT".into()));
                                    return format!("match {} with\n  | [] => {}\n  | {} :: {} =>\n  {}\n  end", it, none, cq(&var), it, self.block(rest, env, k));
                                }
                            }
                        }
                    }
                }
                // panic!("{}", Error::X);
                if let Stmt::Macro(sm) = s {
                    let toks = sm.mac.tokens.to_string().replace(' ', "");
                    if tstr(&sm.mac.path) == "panic" {
                        if let Some(pos) = toks.find("Error::") {
                            return format!("Panic (PanicErr {})", &toks[pos + 7..]);
                        }
                    }
                    return format!("(*UNSUPPORTED macro statement {}*)", tstr(&sm.mac.path));
                }
                // x += e  on a `let mut` local
                if let Stmt::Expr(Expr::Binary(b), Some(_)) = s {
                    if matches!(b.op, BinOp::AddAssign(_)) && self.mut_locals.contains(&tstr(&b.left)) {
                        let x = tstr(&b.left);
                        return self.expr(&b.right, env, &mut |me, v, env| {
                            let t = me.fresh("t");
                            format!("let* {} := uadd md {} {} in\n  let {} := {} in\n  {}", t, x, v, x, t, me.block(rest, env, k))
                        });
                    }
                }
                // for row in value { .. return Err(e); .. }: over the rows, an early `return Err` ends the loop and the function
                if let Stmt::Expr(Expr::ForLoop(fl), _) = s {
                    if let Expr::Path(ip) = &*fl.expr {
                        if env.get(&tstr(ip)) == Some(&Ty::Named("Rows".into())) && self.has_data {
                            let var = tstr(&fl.pat);
                            let mut e2 = env.clone();
                            e2.insert(var.clone(), Ty::Named("VecT".into()));
                            let st = self.state_tuple();
                            let unpack = self.state_unpack("st");
                            let saved = self.mut_locals.clone();
                            if self.ret_result {
                                let body = self.block(&fl.body.stmts, &mut e2, &mut |me2, _, _| format!("Val (Ok {})", me2.state_tuple()));
                                self.mut_locals = saved;
                                let e = self.fresh("e");
                                return format!(
                                    "let* lr := for_try {} {} (fun {} st => {}\n    {}) in\n  match lr with\n  | Ok st => {}\n  {}\n  | Err {} => Val (Err {}) end",
                                    tstr(ip), st, cq(&var), unpack, body, unpack, self.block(rest, env, k), e, e
                                );
                            }
                            let body = self.block(&fl.body.stmts, &mut e2, &mut |me2, _, _| format!("Val {}", me2.state_tuple()));
                            self.mut_locals = saved;
                            return format!(
                                "let* st := for_rows {} {} (fun {} st => {}\n    {}) in\n  {}\n  {}",
                                tstr(ip), st, cq(&var), unpack, body, unpack, self.block(rest, env, k)
                            );
                        }
                    }
                }
                // let [mut] data = <vector expression>;   the element list under construction
                if let Stmt::Local(l) = s {
                    let pat: &Pat = if let Pat::Type(pt) = &l.pat { &pt.pat } else { &l.pat };
                    if let (Pat::Ident(pi), Some(init)) = (pat, &l.init) {
                        if pi.ident == "data" {
                            return self.expr(&init.expr, env, &mut |me, v, env| {
                                env.insert("data".into(), Ty::Named("VecT".into()));
                                me.has_data = true;
                                format!("let data := {} in\n  {}", v, me.block(rest, env, k))
                            });
                        }
                    }
                }
                // data.resize_with(n, T::default);   data.push(e);
                if let Stmt::Expr(Expr::MethodCall(mc), Some(_)) = s {
                    if tstr(&mc.receiver) == "data" && self.has_data {
                        let name = mc.method.to_string();
                        let args: Vec<&Expr> = mc.args.iter().collect();
                        if name == "resize_with" && args.len() == 2 && (tstr(args[1]) == "T::default" || tstr(args[1]) == "U::default") {
                            return self.expr(args[0], env, &mut |me, n, env| format!("let data := vec_resize_with data {} dflt in\n  {}", n, me.block(rest, env, k)));
                        }
                        if name == "shrink_to_fit" && args.is_empty() {
                            // capacity is not part of the model
                            return self.block(rest, env, k);
                        }
                        if (name == "extend" || name == "extend_from_slice") && args.len() == 1 {
                            return self.expr(args[0], env, &mut |me, e, env| format!("let data := vec_extend data {} in\n  {}", e, me.block(rest, env, k)));
                        }
                        if name == "push" && args.len() == 1 {
                            return self.expr(args[0], env, &mut |me, e, env| format!("let data := vec_push data {} in\n  {}", e, me.block(rest, env, k)));
                        }
                        return format!("(*UNSUPPORTED Vec method {}*)", name);
                    }
                }
            }
            // let mut v = vec![false; n];
            if let Stmt::Local(l) = s {
                if let (Pat::Ident(pi), Some(init)) = (&l.pat, &l.init) {
                    if pi.mutability.is_some() {
                        let name = pi.ident.to_string();
                        if let Expr::Macro(mac) = &*init.expr {
                            let toks = mac.mac.tokens.to_string();
                            let parts: Vec<&str> = toks.split(';').collect();
                            if tstr(&mac.mac.path) == "vec" && parts.len() == 2 && parts[0].trim() == "false" {
                                let Ok(n_expr) = syn::parse_str::<Expr>(parts[1]) else { return "(*UNSUPPORTED vec! length*)".into() };
                                return self.expr(&n_expr, env, &mut |me, n, env| {
                                    env.insert(name.clone(), Ty::Named("VecBool".into()));
                                    me.mut_locals.push(name.clone());
                                    format!("let {} := zrepeat false {} in\n  {}", name, n, me.block(rest, env, k))
                                });
                            }
                            return format!("(*UNSUPPORTED macro {}*)", tstr(&mac.mac.path));
                        }
                        // any other `let mut x = e;`: an ordinary binding that later assignments shadow
                        let ty = self.ty_of(&init.expr, env);
                        return self.expr(&init.expr, env, &mut |me, v, env| {
                            env.insert(name.clone(), ty.clone());
                            me.mut_locals.push(name.clone());
                            format!("let {} := {} in\n  {}", name, v, me.block(rest, env, k))
                        });
                    }
                }
                // let p = unsafe { v.get_unchecked_mut(i) };   p stands for element i of the local vector v
                if let (Pat::Ident(pi), Some(init)) = (&l.pat, &l.init) {
                    let inner: Option<&Expr> = match &*init.expr {
                        Expr::Unsafe(u) if u.block.stmts.len() == 1 => match &u.block.stmts[0] {
                            Stmt::Expr(e, None) => Some(e),
                            _ => None,
                        },
                        e => Some(e),
                    };
                    if let Some(Expr::MethodCall(mc)) = inner {
                        let recv = tstr(&mc.receiver);
                        if mc.method == "get_unchecked_mut" && self.mut_locals.contains(&recv) && mc.args.len() == 1 {
                            let p = pi.ident.to_string();
                            return self.expr(&mc.args[0], env, &mut |me, i, env| {
                                let (iv, vv) = (format!("{}_i", p), format!("{}_v", p));
                                me.aliases.insert(p.clone(), (recv.clone(), iv.clone(), vv.clone()));
                                env.insert(p.clone(), Ty::Bool);
                                format!(
                                    "let {} := {} in\n  match znth_opt {} {} with\n  | None => UB UBIndex\n  | Some {} =>\n  {}\n  end",
                                    iv, i, iv, recv, vv, me.block(rest, env, k)
                                )
                            });
                        }
                    }
                }
            }
            // break;
            if let Stmt::Expr(Expr::Break(_), _) = s {
                return match &self.loop_state {
                    Some(_) => format!("Val (false, {})", self.state_tuple()),
                    None => "(*UNSUPPORTED break outside loop*)".into(),
                };
            }
            // *p = e  (p an element alias)   |   x = e  (x a `let mut` local)
            if let Stmt::Expr(Expr::Assign(a), _) = s {
                let lhs = tstr(&a.left);
                if let Some((vec, iv, _)) = lhs.strip_prefix('*').and_then(|n| self.aliases.get(n)).cloned() {
                    return self.expr(&a.right, env, &mut |me, v, env| format!("let {} := zupd {} {} {} in\n  {}", vec, vec, iv, v, me.block(rest, env, k)));
                }
                if self.mut_locals.contains(&lhs) {
                    return self.expr(&a.right, env, &mut |me, v, env| format!("let {} := {} in\n  {}", lhs, v, me.block(rest, env, k)));
                }
            }
            // loop { body }: the body maps the loop state to (continue?, state); `fuel` bounds the number of iterations
            if let Stmt::Expr(Expr::Loop(lp), _) = s {
                let st = self.state_tuple();
                let unpack = self.state_unpack("st");
                let saved = (self.mut_locals.clone(), self.loop_state.clone());
                self.loop_state = Some(st.clone());
                let body = self.block(&lp.body.stmts, &mut env.clone(), &mut |me, _, _| format!("Val (true, {})", me.state_tuple()));
                self.mut_locals = saved.0;
                self.loop_state = saved.1;
                return format!(
                    "let* st := loop_res fuel {} (fun st => {}\n    {}) in\n  {}\n  {}",
                    st,
                    unpack,
                    body,
                    unpack,
                    self.block(rest, env, k)
                );
            }
            // for i in 0..n { body }  with the `let mut` locals and the element list as the loop state
            if let Stmt::Expr(Expr::ForLoop(fl), _) = s {
                let var = tstr(&fl.pat);
                let Expr::Range(rg) = &*fl.expr else { return "(*UNSUPPORTED loop range*)".into() };
                let lo = rg.start.as_ref().map(|e| tstr(e)).unwrap_or_default();
                let Some(hi) = rg.end.as_ref() else { return "(*UNSUPPORTED open loop range*)".into() };
                if lo != "0" || !matches!(rg.limits, RangeLimits::HalfOpen(_)) || !self.has_data {
                    return "(*UNSUPPORTED loop form*)".into();
                }
                return self.expr(hi, env, &mut |me, n, env| {
                    let mut e2 = env.clone();
                    e2.insert(var.clone(), Ty::Usize);
                    let st = me.state_tuple();
                    let saved = (me.mut_locals.clone(), me.loop_state.take());
                    if me.state_vars().len() == 1 {
                        let body = me.block(&fl.body.stmts, &mut e2, &mut |_, _, _| "Val data".to_string());
                        me.mut_locals = saved.0;
                        me.loop_state = saved.1;
                        return format!("let* data := for_res (zseq {}) data (fun {} data =>\n    {}) in\n  {}", n, var, body, me.block(rest, env, k));
                    }
                    let unpack = me.state_unpack("st");
                    let outer_vars = me.state_vars();
                    let body = me.block(&fl.body.stmts, &mut e2, &mut |_, _, _| format!("Val ({})", outer_vars.join(", ")));
                    me.mut_locals = saved.0;
                    me.loop_state = saved.1;
                    format!(
                        "let* st := for_res (zseq {}) {} (fun {} st => {}\n    {}) in\n  {}\n  {}",
                        n,
                        st,
                        var,
                        unpack,
                        body,
                        unpack,
                        me.block(rest, env, k)
                    )
                });
            }
            // items declared inside a function body (the unwind guard of resize: a struct and its Drop impl) take no part in
            // the function's normal (non-unwinding) execution; what they do on unwinding is the fault model's business (C02)
            if let Stmt::Item(_) = s {
                return self.block(rest, env, k);
            }
            if self.owner == "Matrix" && !self.arith && !self.ctor_mode {
                // let guard = Guard { data: &mut self.data, .. };   a second name for self.data
                if let Stmt::Local(l) = s {
                    if let (Pat::Ident(pi), Some(init)) = (&l.pat, &l.init) {
                        if let Expr::Struct(st) = &*init.expr {
                            if st.fields.iter().any(|f| tstr(&f.member) == "data" && tstr(&f.expr) == "&mutself.data") {
                                self.aliases.insert(pi.ident.to_string(), ("self.data".into(), String::new(), String::new()));
                                return self.block(rest, env, k);
                            }
                        }
                    }
                }
                if let Stmt::Expr(Expr::Call(c), Some(_)) = s {
                    if tstr(&c.func) == "std::mem::forget" && c.args.len() == 1 && self.aliases.contains_key(&tstr(&c.args[0])) {
                        return self.block(rest, env, k);
                    }
                }
                if let Stmt::Expr(Expr::MethodCall(mc), Some(_)) = s {
                    let recv = tstr(&mc.receiver);
                    let on_self_data = recv == "self.data"
                        || recv.strip_suffix(".data").map_or(false, |g| self.aliases.get(g).map_or(false, |a| a.0 == "self.data"));
                    if on_self_data && mc.method == "truncate" && mc.args.len() == 1 {
                        return self.expr(&mc.args[0], env, &mut |me, n, env| {
                            format!("let self := set_data self (vec_truncate (m_data self) {}) in\n  {}", n, me.block(rest, env, k))
                        });
                    }
                    if on_self_data && mc.method == "resize_with" && mc.args.len() == 2 && tstr(&mc.args[1]) == "T::default" {
                        return self.expr(&mc.args[0], env, &mut |me, n, env| {
                            format!("let self := set_data self (vec_resize_with (m_data self) {} dflt) in\n  {}", n, me.block(rest, env, k))
                        });
                    }
                }
            }
            // self.data.get_unchecked_mut(lo..hi).clone_from_slice(X.data.get_unchecked(a..b));
            // self.data.get_unchecked_mut(lo..hi).iter_mut().zip(X.data.iter().skip(a).step_by(b)).for_each(|(x, y)| *x = y.clone());
            if let Stmt::Expr(Expr::MethodCall(mc), Some(_)) = s {
                fn range_of(e: &Expr) -> Option<(&Expr, &Expr)> {
                    if let Expr::Range(r) = e {
                        if let (Some(a), Some(b), RangeLimits::HalfOpen(_)) = (r.start.as_ref(), r.end.as_ref(), &r.limits) {
                            return Some((a, b));
                        }
                    }
                    None
                }
                // the destination sub-slice: self.data.get_unchecked_mut(lo..hi)
                fn dest_of(e: &Expr) -> Option<(&Expr, &Expr)> {
                    if let Expr::MethodCall(g) = e {
                        if g.method == "get_unchecked_mut" && tstr(&g.receiver) == "self.data" && g.args.len() == 1 {
                            return range_of(&g.args[0]);
                        }
                    }
                    None
                }
                if self.has_data && mc.method == "clone_from_slice" && mc.args.len() == 1 {
                    if let (Some((lo, hi)), Expr::MethodCall(src)) = (dest_of(&mc.receiver), &mc.args[0]) {
                        let who = tstr(&src.receiver);
                        if src.method == "get_unchecked" && src.args.len() == 1 && who.ends_with(".data") {
                            if let Some((a, b)) = range_of(&src.args[0]) {
                                let who = who.trim_end_matches(".data").to_string();
                                return self.exprs(&[lo, hi, a, b], env, &mut |me, vs, env| {
                                    format!(
                                        "let* dst := slice_unchecked data {} {} in\n  let* src := slice_unchecked (m_data {}) {} {} in\n  let* data := (if negb (zlen dst =? zlen src) then Panic PanicStd else Val (splice data {} (map clone src))) in\n  {}",
                                        vs[0], vs[1], who, vs[2], vs[3], vs[0], me.block(rest, env, k)
                                    )
                                });
                            }
                        }
                    }
                    return "(*UNSUPPORTED clone_from_slice form*)".into();
                }
                if self.has_data && mc.method == "for_each" && mc.args.len() == 1 && tstr(&mc.args[0]) == "|(x,y)|*x=y.clone()" {
                    if let Expr::MethodCall(zp) = &*mc.receiver {
                        if let Expr::MethodCall(im) = &*zp.receiver {
                            if zp.method == "zip" && zp.args.len() == 1 && im.method == "iter_mut" {
                                if let (Some((lo, hi)), Expr::MethodCall(sb)) = (dest_of(&im.receiver), &zp.args[0]) {
                                    if let Expr::MethodCall(sk) = &*sb.receiver {
                                        let base = tstr(&sk.receiver);
                                        if sb.method == "step_by" && sk.method == "skip" && base.ends_with(".data.iter()") {
                                            let who = base.trim_end_matches(".data.iter()").to_string();
                                            return self.exprs(&[lo, hi, &sk.args[0], &sb.args[0]], env, &mut |me, vs, env| {
                                                format!(
                                                    "let* dst := slice_unchecked data {} {} in\n  let* src := zview {} {} (zlen (m_data {})) (m_data {}) in\n  let data := splice data {} (map clone (zfirstn (Z.min (zlen dst) (zlen src)) src)) in\n  {}",
                                                    vs[0], vs[1], vs[2], vs[3], who, who, vs[0], me.block(rest, env, k)
                                                )
                                            });
                                        }
                                    }
                                }
                            }
                        }
                    }
                    return "(*UNSUPPORTED zip / for_each form*)".into();
                }
            }
            // ptr::swap(x, y);  ptr::swap_nonoverlapping(x, y, count);
            if let Stmt::Expr(Expr::Call(c), _) = s {
                let f = tstr(&c.func);
                if f == "ptr::swap" || f == "ptr::swap_nonoverlapping" {
                    let args: Vec<&Expr> = c.args.iter().collect();
                    let prim = if f == "ptr::swap" { "ptr_swap" } else { "swap_nonoverlapping_m" };
                    return self.exprs(&args, env, &mut |me, vs, env| {
                        format!("let* data := {} data {} in\n  {}", prim, vs.join(" "), me.block(rest, env, k))
                    });
                }
            }
            // a block (`unsafe { .. }`) in statement position continues with the statements after it
            if let Stmt::Expr(Expr::Unsafe(u), _) = s {
                if !rest.is_empty() || true {
                    let mut all: Vec<Stmt> = u.block.stmts.clone();
                    all.extend(rest.iter().cloned());
                    return self.block(&all, env, k);
                }
            }
            // `match order { RowMajor => { loops }, ColMajor => { loops } }` as a statement: both arms yield the loop state
            if let (Stmt::Expr(Expr::Match(m), _), true, false) = (s, self.has_data, rest.is_empty()) {
                return self.expr(&m.expr, env, &mut |me, sc, env| {
                    let saved = me.mut_locals.clone();
                    let arms: Vec<String> = m
                        .arms
                        .iter()
                        .map(|a| {
                            let p = tstr(&a.pat).rsplit("::").next().unwrap().to_string();
                            let body = match &*a.body {
                                Expr::Block(b) => me.block(&b.block.stmts, &mut env.clone(), &mut |me2, _, _| format!("Val {}", me2.state_tuple())),
                                other => format!("(*UNSUPPORTED match arm body {}*)", tstr(other)),
                            };
                            me.mut_locals = saved.clone();
                            format!("| {} => {}", p, body)
                        })
                        .collect();
                    let unpack = me.state_unpack("st");
                    format!("let* st := (match {} with {} end) in\n  {}\n  {}", sc, arms.join(" "), unpack, me.block(rest, env, k))
                });
            }
            // tail `match self.order { .. => self.f(..), .. }`: every arm finishes the function
            if let (Stmt::Expr(Expr::Match(m), None), true) = (s, rest.is_empty()) {
                return self.expr(&m.expr, env, &mut |me, sc, env| {
                    let arms: Vec<String> = m
                        .arms
                        .iter()
                        .map(|a| {
                            let p = tstr(&a.pat).rsplit("::").next().unwrap().to_string();
                            format!("| {} => {}", p, me.expr(&a.body, &mut env.clone(), k))
                        })
                        .collect();
                    format!("match {} with {} end", sc, arms.join(" "))
                });
            }
        }
        match s {
            Stmt::Local(l) => {
                let Some(init) = l.init.as_ref() else { return "(*UNSUPPORTED let without initialiser*)".into() };
                if let Some((_, div)) = &init.diverge {
                    let (Pat::TupleStruct(ts), Expr::Block(b)) = (&l.pat, &**div) else {
                        return format!("(*UNSUPPORTED let-else {}*)", tstr(&l.pat));
                    };
                    let ctor = tstr(&ts.path);
                    if !(ctor == "Ok" || ctor == "Some") || ts.elems.len() != 1 {
                        return format!("(*UNSUPPORTED let-else pattern {}*)", tstr(&l.pat));
                    }
                    let Pat::Ident(id) = &ts.elems[0] else { return format!("(*UNSUPPORTED let-else binder {}*)", tstr(&l.pat)) };
                    let var = id.ident.to_string();
                    let inner_ty = match self.ty_of(&init.expr, env) {
                        Ty::Res(a) | Ty::Opt(a) => *a,
                        _ => Ty::Unknown,
                    };
                    return self.expr(&init.expr, env, &mut |me, v, env| {
                        let mut e2 = env.clone();
                        e2.insert(var.clone(), inner_ty.clone());
                        let ok = me.block(rest, &mut e2, k);
                        let bad = me.block(&b.block.stmts, &mut env.clone(), &mut |me2, v, _| me2.finish(v));
                        format!("match {} with\n  | {} {} => {}\n  | _ => {} end", v, ctor, var, ok, bad)
                    });
                }
                if let Expr::Try(t) = &*init.expr {
                    return self.try_(&t.expr, Some(&l.pat), rest, env, k);
                }
                let ty = self.ty_of(&init.expr, env);
                self.expr(&init.expr, env, &mut |me, v, env| {
                    let p = me.bind_pat(&l.pat, &ty, env);
                    format!("let {} := {} in\n  {}", p, v, me.block(rest, env, k))
                })
            }
            Stmt::Expr(e, semi) => {
                if semi.is_none() && rest.is_empty() {
                    return self.expr(e, env, k);
                }
                match e {
                    Expr::Try(t) => self.try_(&t.expr, None, rest, env, k),
                    Expr::Return(r) => match r.expr.as_ref() {
                        Some(x) => self.expr(x, env, &mut |me, v, _| me.finish(v)),
                        None => self.finish("tt".into()),
                    },
                    // `if c { self.f = ..; } else { ..; self.g = ..; }`: both branches yield the updated `self`
                    Expr::If(i)
                        if self.self_mut
                            && !tstr(&i.then_branch).contains("return")
                            && !tstr(&i.then_branch).contains("break")
                            && (self.data_mode || Self::mutates_self(&i.then_branch.stmts) || i.else_branch.as_ref().map_or(false, |(_, e)| tstr(e).contains("self."))) =>
                    {
                        if self.has_data {
                            // both branches update the element list (and the `let mut` locals): they yield the loop state
                            return self.expr(&i.cond, env, &mut |me, c, env| {
                                let saved = me.mut_locals.clone();
                                let th = me.block(&i.then_branch.stmts, &mut env.clone(), &mut |me2, _, _| format!("Val {}", me2.state_tuple()));
                                me.mut_locals = saved.clone();
                                let el = match &i.else_branch {
                                    Some((_, e)) => match &**e {
                                        Expr::Block(b) => me.block(&b.block.stmts, &mut env.clone(), &mut |me2, _, _| format!("Val {}", me2.state_tuple())),
                                        other => format!("(*UNSUPPORTED else branch {}*)", tstr(other)),
                                    },
                                    None => format!("Val {}", me.state_tuple()),
                                };
                                me.mut_locals = saved;
                                let unpack = me.state_unpack("st");
                                format!("let* st := (if {} then {}\n    else {}) in\n  {}\n  {}", c, th, el, unpack, me.block(rest, env, k))
                            });
                        }
                        self.expr(&i.cond, env, &mut |me, c, env| {
                            let th = me.block(&i.then_branch.stmts, &mut env.clone(), &mut |_, _, _| "Val self".to_string());
                            let el = match &i.else_branch {
                                Some((_, e)) => match &**e {
                                    Expr::Block(b) => me.block(&b.block.stmts, &mut env.clone(), &mut |_, _, _| "Val self".to_string()),
                                    other => format!("(*UNSUPPORTED else branch {}*)", tstr(other)),
                                },
                                None => "Val self".to_string(),
                            };
                            format!("let* self := (if {} then {}\n    else {}) in\n  {}", c, th, el, me.block(rest, env, k))
                        })
                    }
                    Expr::If(i) if i.else_branch.is_none() => self.expr(&i.cond, env, &mut |me, c, env| {
                        // `if c { return x; }` guard
                        let th = me.block(&i.then_branch.stmts, &mut env.clone(), &mut |me2, v, _| me2.finish(v));
                        let el = me.block(rest, env, k);
                        format!("if {} then {}\n  else {}", c, th, el)
                    }),
                    Expr::Assign(a) => self.assign(a, rest, env, k),
                    _ => self.expr(e, env, &mut |me, _v, env| me.block(rest, env, k)),
                }
            }
            _ => format!("(*UNSUPPORTED statement {}*)", tstr(s)),
        }
    }
    fn try_(&mut self, inner: &Expr, pat: Option<&Pat>, rest: &[Stmt], env: &mut Env, k: &mut dyn FnMut(&mut Self, String, &mut Env) -> String) -> String {
        let ity = self.ty_of(inner, env);
        let is_opt = matches!(ity, Ty::Opt(_));
        let vt = match ity {
            Ty::Res(a) | Ty::Opt(a) => *a,
            _ => Ty::Unknown,
        };
        self.expr(inner, env, &mut |me, v, env| {
            let x = match pat {
                Some(p) => me.bind_pat(p, &vt, env),
                None => "_".into(),
            };
            let r = me.block(rest, env, k);
            if is_opt {
                format!("match {} with\n  | Some {} => {}\n  | None => {} end", v, x, r, me.finish("None".into()))
            } else {
                let e = me.fresh("e");
                format!("match {} with\n  | Ok {} => {}\n  | Err {} => {} end", v, x, r, e.clone(), me.finish(format!("(Err {})", e)))
            }
        })
    }
    fn assign(&mut self, a: &ExprAssign, rest: &[Stmt], env: &mut Env, k: &mut dyn FnMut(&mut Self, String, &mut Env) -> String) -> String {
        // self.f = e | (self.a, self.b) = (..) | *self = e
        let lhs: Vec<String> = match &*a.left {
            Expr::Tuple(t) => t.elems.iter().map(tstr).collect(),
            l => vec![tstr(l)],
        };
        if lhs.iter().any(|l| !(l == "*self" || l.starts_with("self."))) {
            return format!("(*UNSUPPORTED assignment to {}*)", lhs.join(","));
        }
        let owner = self.owner.clone();
        self.expr(&a.right, env, &mut |me, v, env| {
            let mut out = String::new();
            if lhs.len() == 1 && lhs[0] == "*self" {
                out += &format!("let self := {} in\n  ", v);
            } else if lhs.len() == 1 && me.data_mode {
                let f = lhs[0].trim_start_matches("self.");
                out += &format!("let self := set_m_{} self {} in\n  ", f, v);
            } else if lhs.len() == 1 {
                let f = lhs[0].trim_start_matches("self.");
                out += &format!("let self := set_{}_{} self {} in\n  ", owner, f, v);
            } else {
                let names: Vec<String> = (0..lhs.len()).map(|i| format!("t_{}", i)).collect();
                out += &format!("let '({}) := {} in\n  ", names.join(", "), v);
                for (l, n) in lhs.iter().zip(&names) {
                    out += &format!("let self := set_{}_{} self {} in\n  ", owner, l.trim_start_matches("self."), n);
                }
            }
            out + &me.block(rest, env, k)
        })
    }
    // an expression in a position where a `res` computation is expected (branch of if / match / || / &&)
    fn sub(&mut self, e: &Expr, env: &Env) -> String {
        let mut env2 = env.clone();
        self.expr(e, &mut env2, &mut |_, v, _| format!("Val {}", v))
    }
    fn call(&mut self, owner: &str, name: &str, args: Vec<String>, env: &mut Env, k: &mut dyn FnMut(&mut Self, String, &mut Env) -> String) -> String {
        let t = self.fresh("r");
        let es = if ptr_fn(owner, name) {
            " es al base bytes"
        } else if self.callee_uses_es(owner, name) {
            self.uses_es = true;
            if self.arith {
                " esU"
            } else {
                " es"
            }
        } else {
            ""
        };
        format!("let* {} := G_{}_{} md{} {} in\n  {}", t, owner, name, es, args.join(" "), k(self, t.clone(), env))
    }
    fn expr(&mut self, e: &Expr, env: &mut Env, k: &mut dyn FnMut(&mut Self, String, &mut Env) -> String) -> String {
        match e {
            Expr::Lit(l) => k(self, tstr(l).trim_end_matches("usize").trim_end_matches("isize").to_string(), env),
            Expr::Path(p) if self.ctor_mode && tstr(p) == "C" && env.get("value") == Some(&Ty::Named("Rows".into())) => {
                // the const generic length of the array converted from
                k(self, "(zlen value)".into(), env)
            }
            Expr::Path(p) if self.aliases.contains_key(&tstr(p)) => {
                let v = self.aliases[&tstr(p)].2.clone();
                k(self, v, env)
            }
            Expr::Path(p) => {
                let n = tstr(p);
                let n = match n.as_str() {
                    "Order::RowMajor" | "Self::RowMajor" => "RowMajor".into(),
                    "Order::ColMajor" | "Self::ColMajor" => "ColMajor".into(),
                    "isize::MAX" => "(imax md)".into(),
                    "usize::MAX" => "(umax md)".into(),
                    s if s.starts_with("Error::") => s[7..].to_string(),
                    _ => cq(&n),
                };
                k(self, n, env)
            }
            Expr::Paren(p) => self.expr(&p.expr, env, k),
            Expr::Reference(r) => self.expr(&r.expr, env, k),
            Expr::Return(r) => match r.expr.as_ref() {
                Some(x) => self.expr(x, env, &mut |me, v, _| me.finish(v)),
                None => self.finish("tt".into()),
            },
            Expr::Unsafe(u) => self.block(&u.block.stmts, env, k),
            Expr::Block(b) => self.block(&b.block.stmts, env, k),
            Expr::Unary(u) if matches!(u.op, UnOp::Deref(_)) => self.expr(&u.expr, env, k),
            Expr::Unary(u) if matches!(u.op, UnOp::Not(_)) => self.expr(&u.expr, env, &mut |me, v, env| k(me, format!("(negb {})", v), env)),
            Expr::Field(f) if self.data_mode && tstr(&f.base) == "self" => {
                let m = tstr(&f.member);
                k(self, format!("(m_{} self)", m), env)
            }
            Expr::Field(f) if self.data_mode && matches!(&*f.base, Expr::Path(_)) && env.get(&tstr(&f.base)) == Some(&Ty::Named("Matrix".into())) => {
                // a field of another matrix (`other.shape`)
                let m = tstr(&f.member);
                k(self, format!("(m_{} {})", m, tstr(&f.base)), env)
            }
            Expr::Field(f) if matches!(f.member, Member::Unnamed(_)) => {
                let m = tstr(&f.member);
                self.expr(&f.base, env, &mut |me, b, env| k(me, format!("({} {})", if m == "0" { "fst" } else { "snd" }, b), env))
            }
            Expr::Field(f) => {
                let bt = self.ty_of(&f.base, env);
                let s = if let Ty::Named(s) = bt { s } else { "UNKNOWN".into() };
                let m = tstr(&f.member);
                self.expr(&f.base, env, &mut |me, b, env| k(me, format!("(f_{}_{} {})", s, m, b), env))
            }
            Expr::Cast(c) => {
                let from = self.ty_of(&c.expr, env);
                let to = tstr(&c.ty);
                self.expr(&c.expr, env, &mut |me, v, env| {
                    let r = match (&from, to.as_str()) {
                        (Ty::Isize, "usize") => format!("(cast_isize_usize md {})", v),
                        (Ty::Usize, "usize") | (Ty::Isize, "isize") => v,
                        _ => format!("(*UNSUPPORTED cast {:?} as {}*)", from, to),
                    };
                    k(me, r, env)
                })
            }
            Expr::Tuple(t) => self.exprs(&t.elems.iter().collect::<Vec<_>>(), env, &mut |me, vs, env| k(me, format!("({})", vs.join(", ")), env)),
            Expr::Struct(s) => {
                let name = {
                    let n = tstr(&s.path);
                    if n == "Self" {
                        self.owner.clone()
                    } else {
                        n
                    }
                };
                // fields in declaration order of the struct, whatever the order in the literal
                let decl: Vec<String> =
                    self.cx.structs.get(&name).map(|v| v.iter().map(|(n, _)| n.clone()).filter(|n| n != "marker").collect()).unwrap_or_default();
                let mut fs: Vec<(String, &Expr)> = s.fields.iter().map(|f| (tstr(&f.member), &f.expr)).filter(|(n, _)| n != "marker").collect();
                if decl.len() != fs.len() || s.rest.is_some() {
                    return format!("(*UNSUPPORTED struct literal {}*)", name);
                }
                // evaluation order is the literal's order; the constructor takes declaration order
                let lit_order: Vec<String> = fs.iter().map(|(n, _)| n.clone()).collect();
                let es_: Vec<&Expr> = fs.drain(..).map(|(_, e)| e).collect();
                self.exprs(&es_, env, &mut |me, vs, env| {
                    let mut by_name: HashMap<&str, &String> = HashMap::new();
                    for (n, v) in lit_order.iter().zip(vs.iter()) {
                        by_name.insert(n.as_str(), v);
                    }
                    let ordered: Vec<String> = decl.iter().map(|n| by_name.get(n.as_str()).map(|s| (*s).clone()).unwrap_or("(*UNSUPPORTED missing field*)".into())).collect();
                    if me.ctor_mode && name == "Matrix" {
                        return k(me, format!("(mkMatrix {})", ordered.join(" ")), env);
                    }
                    k(me, format!("(Build_{} {})", name, ordered.join(" ")), env)
                })
            }
            Expr::Binary(b) => {
                let lt = self.ty_of(&b.left, env);
                match b.op {
                    BinOp::Or(_) | BinOp::And(_) => {
                        let is_or = matches!(b.op, BinOp::Or(_));
                        let t = self.fresh("b");
                        self.expr(&b.left, env, &mut |me, l, env| {
                            let r = me.sub(&b.right, env);
                            let body = if is_or { format!("if {} then Val true else {}", l, r) } else { format!("if {} then {} else Val false", l, r) };
                            format!("let* {} := ({}) in\n  {}", t, body, k(me, t.clone(), env))
                        })
                    }
                    _ => self.expr(&b.left, env, &mut |me, l, env| {
                        me.expr(&b.right, env, &mut |me, r, env| {
                            let pure = |op: &str| format!("({} {} {})", l, op, r);
                            match b.op {
                                BinOp::Lt(_) => k(me, pure("<?"), env),
                                BinOp::Le(_) => k(me, pure("<=?"), env),
                                BinOp::Gt(_) => k(me, pure(">?"), env),
                                BinOp::Ge(_) => k(me, pure(">=?"), env),
                                BinOp::Eq(_) | BinOp::Ne(_) => {
                                    let eq = match &lt {
                                        // element equality and slice equality are caller code (T: PartialEq)
                                        Ty::Named(s) if s == "Elem" => format!("(eqT {} {})", l, r),
                                        Ty::Named(s) if s == "Vec" => format!("(vec_eqb eqT {} {})", l, r),
                                        Ty::Named(s) => format!("(G{}_eqb {} {})", s, l, r),
                                        Ty::Usize | Ty::Isize => pure("=?"),
                                        _ => format!("(*UNSUPPORTED == at type {:?}*)", lt),
                                    };
                                    k(me, if matches!(b.op, BinOp::Ne(_)) { format!("(negb {})", eq) } else { eq }, env)
                                }
                                _ => {
                                    if lt == Ty::Named("Elem".into()) {
                                        // the element type's own operators: caller code, a parameter
                                        let f = match b.op {
                                            BinOp::Mul(_) => "mul",
                                            BinOp::Add(_) => "add",
                                            _ => return "(*UNSUPPORTED element operator*)".into(),
                                        };
                                        return k(me, format!("({} {} {})", f, l, r), env);
                                    }
                                    if lt != Ty::Usize {
                                        return format!("(*UNSUPPORTED arithmetic at type {:?}*)", lt);
                                    }
                                    let f = match b.op {
                                        BinOp::Add(_) => "uadd md",
                                        BinOp::Sub(_) => "usub md",
                                        BinOp::Mul(_) => "umul md",
                                        BinOp::Div(_) => "udiv",
                                        BinOp::Rem(_) => "urem",
                                        _ => "(*UNSUPPORTED operator*)",
                                    };
                                    let t = me.fresh("t");
                                    format!("let* {} := {} {} {} in\n  {}", t, f, l, r, k(me, t.clone(), env))
                                }
                            }
                        })
                    }),
                }
            }
            Expr::If(i) => {
                let t = self.fresh("v");
                self.expr(&i.cond, env, &mut |me, c, env| {
                    let th = me.block(&i.then_branch.stmts, &mut env.clone(), &mut |_, v, _| format!("Val {}", v));
                    let el = match &i.else_branch {
                        Some((_, e)) => me.sub(e, env),
                        None => "Val tt".into(),
                    };
                    format!("let* {} := (if {} then {}\n    else {}) in\n  {}", t, c, th, el, k(me, t.clone(), env))
                })
            }
            Expr::Match(m) => {
                let t = self.fresh("v");
                let scrut_ty = self.ty_of(&m.expr, env);
                self.expr(&m.expr, env, &mut |me, s, env| {
                    let arms: Vec<String> = m
                        .arms
                        .iter()
                        .map(|a| {
                            let p = tstr(&a.pat);
                            if a.guard.is_some() {
                                return format!("| (*UNSUPPORTED match guard {}*) _ => Val tt", p);
                            }
                            let last = p.rsplit("::").next().unwrap().to_string();
                            if last == "RowMajor" || last == "ColMajor" || last == "None" {
                                return format!("| {} => {}", last, me.sub(&a.body, env));
                            }
                            if let (Pat::TupleStruct(ts), Ty::Opt(inner)) = (&a.pat, &scrut_ty) {
                                if tstr(&ts.path) == "Some" && ts.elems.len() == 1 {
                                    if let Pat::Ident(id) = &ts.elems[0] {
                                        let mut env2 = env.clone();
                                        env2.insert(id.ident.to_string(), (**inner).clone());
                                        return format!("| Some {} => {}", id.ident, me.sub(&a.body, &env2));
                                    }
                                }
                            }
                            format!("| (*UNSUPPORTED match arm {}*) _ => Val tt", p)
                        })
                        .collect();
                    format!("let* {} := (match {} with {} end) in\n  {}", t, s, arms.join(" "), k(me, t.clone(), env))
                })
            }
            // an `e?` inside an expression (Option): None returns None from the function
            Expr::Try(t) => {
                let ity = self.ty_of(&t.expr, env);
                if !matches!(ity, Ty::Opt(_)) {
                    return format!("(*UNSUPPORTED ? at type {:?}*)", ity);
                }
                self.expr(&t.expr, env, &mut |me, v, env| {
                    let x = me.fresh("o");
                    let r = k(me, x.clone(), env);
                    format!("match {} with\n  | Some {} => {}\n  | None => {} end", v, x, r, me.finish("None".into()))
                })
            }
            Expr::Call(c) => {
                let p = tstr(&c.func);
                if p.starts_with("size_of::<") {
                    self.uses_es = true;
                    return k(self, "es".into(), env);
                }
                if p == "NonNull::dangling" {
                    return k(self, "al".into(), env);
                }
                if p == "Vec::new" && c.args.is_empty() {
                    return k(self, "vec_new".into(), env);
                }
                if p == "dot_product" && self.arith {
                    let args: Vec<&Expr> = c.args.iter().collect();
                    return self.exprs(&args, env, &mut |me, vs, env| {
                        let t = me.fresh("o");
                        format!("let* {} := G_Free_dot_product md mul add {} in\n  {}", t, vs.join(" "), k(me, t.clone(), env))
                    });
                }
                if p == "cmp::min" && c.args.len() == 2 {
                    let args: Vec<&Expr> = c.args.iter().collect();
                    return self.exprs(&args, env, &mut |me, vs, env| k(me, format!("(Z.min {} {})", vs[0], vs[1]), env));
                }
                if let Some(t) = p.strip_suffix("::default") {
                    if c.args.is_empty() {
                        if let Some(v) = self.cx.defaults.get(t).cloned() {
                            return k(self, v, env);
                        }
                    }
                }
                if env.get(&p) == Some(&Ty::Named("OpFnM".into())) {
                    // a closure whose result is an outcome (it may be an unchecked computation)
                    let args: Vec<&Expr> = c.args.iter().collect();
                    return self.exprs(&args, env, &mut |me, vs, env| {
                        let t = me.fresh("u");
                        format!("let* {} := {} {} in\n  {}", t, p, vs.join(" "), k(me, t.clone(), env))
                    });
                }
                if env.get(&p) == Some(&Ty::Named("OpFn".into())) {
                    // the operation closure: caller code; for the assigning forms its value is the new left element
                    let args: Vec<&Expr> = c.args.iter().collect();
                    return self.exprs(&args, env, &mut |me, vs, env| k(me, format!("({} {})", p, vs.join(" ")), env));
                }
                if env.get(&p) == Some(&Ty::Named("Init".into())) {
                    // the initializer closure: caller code, a function of the index it is given
                    let args: Vec<&Expr> = c.args.iter().collect();
                    return self.exprs(&args, env, &mut |me, vs, env| k(me, format!("({} {})", p, vs.join(" ")), env));
                }
                let args: Vec<&Expr> = c.args.iter().collect();
                self.exprs(&args, env, &mut |me, vs, env| match p.as_str() {
                    "Ok" | "Err" | "Some" => k(me, format!("({} {})", p, vs.join(" ")), env),
                    "without_provenance_mut" => k(me, vs[0].clone(), env),
                    "Vec::with_capacity" => k(me, format!("(vec_with_capacity {})", vs[0]), env),
                    "NonZero::new_unchecked" => {
                        let t = me.fresh("z");
                        format!("let* {} := nz_new_unchecked {} in\n  {}", t, vs[0], k(me, t.clone(), env))
                    }
                    "NonNull::new_unchecked" => {
                        let t = me.fresh("p");
                        format!("let* {} := nn_new_unchecked {} in\n  {}", t, vs[0], k(me, t.clone(), env))
                    }
                    _ => {
                        let (o, n) = p.rsplit_once("::").unwrap_or(("", &p));
                        let o = if o == "Self" { me.owner.clone() } else { o.split("::<").next().unwrap().split('<').next().unwrap().to_string() };
                        if me.cx.fns.contains_key(&(o.clone(), n.to_string())) {
                            me.call(&o, n, vs, env, k)
                        } else {
                            format!("(*UNSUPPORTED call {}*)", p)
                        }
                    }
                })
            }
            Expr::MethodCall(m)
                if self.data_mode && m.method == "take" && {
                    let t = tstr(&m.receiver);
                    (t.starts_with("self.data.iter().skip(") || t.starts_with("self.data.iter_mut().skip(")) && t.contains(").step_by(")
                } =>
            {
                // self.data.iter().skip(a).step_by(b).take(c): the std adaptor chain as executed (zview; step_by(0) panics)
                let Expr::MethodCall(sb) = &*m.receiver else { return "(*UNSUPPORTED adaptor chain*)".into() };
                let Expr::MethodCall(sk) = &*sb.receiver else { return "(*UNSUPPORTED adaptor chain*)".into() };
                let args: Vec<&Expr> = vec![&sk.args[0], &sb.args[0], &m.args[0]];
                self.exprs(&args, env, &mut |me, vs, env| {
                    let t = me.fresh("w");
                    format!("let* {} := zview {} {} {} (m_data self) in\n  {}", t, vs[0], vs[1], vs[2], k(me, t.clone(), env))
                })
            }
            Expr::MethodCall(m) if self.data_mode && m.method == "all" && tstr(&m.receiver).ends_with(".data.iter().enumerate()") && m.args.len() == 1 => {
                // X.data.iter().enumerate().all(|(i, x)| body): left to right, stops at the first false
                let Expr::Closure(cl) = &m.args[0] else { return "(*UNSUPPORTED all() argument*)".into() };
                let who = tstr(&m.receiver).trim_end_matches(".data.iter().enumerate()").to_string();
                let names: Vec<String> = match cl.inputs.first() {
                    Some(Pat::Tuple(t)) if cl.inputs.len() == 1 && t.elems.len() == 2 => t.elems.iter().map(tstr).collect(),
                    _ => return "(*UNSUPPORTED closure parameters*)".into(),
                };
                let mut e2 = env.clone();
                e2.insert(names[0].clone(), Ty::Usize);
                e2.insert(names[1].clone(), Ty::Named("Elem".into()));
                let body = self.expr(&cl.body, &mut e2, &mut |_, v, _| format!("Val {}", v));
                let t = self.fresh("q");
                format!(
                    "let* {} := all_res (zenumerate (m_data {})) (fun ix_el => let '({}, {}) := ix_el in\n    {}) in\n  {}",
                    t,
                    who,
                    cq(&names[0]),
                    cq(&names[1]),
                    body,
                    k(self, t.clone(), env)
                )
            }
            Expr::MethodCall(m) if self.data_mode && m.method == "get_unchecked" && m.args.len() == 1 && matches!(&m.args[0], Expr::Range(_)) && tstr(&m.receiver).ends_with(".data") => {
                // X.data.get_unchecked(lo..hi)
                let Expr::Range(r) = &m.args[0] else { unreachable!() };
                let (Some(lo), Some(hi), RangeLimits::HalfOpen(_)) = (r.start.as_ref(), r.end.as_ref(), &r.limits) else { return "(*UNSUPPORTED range*)".into() };
                let who = tstr(&m.receiver).trim_end_matches(".data").to_string();
                self.exprs(&[lo, hi], env, &mut |me, vs, env| {
                    let t = me.fresh("s");
                    format!("let* {} := slice_unchecked (m_data {}) {} {} in\n  {}", t, who, vs[0], vs[1], k(me, t.clone(), env))
                })
            }
            Expr::MethodCall(m) if self.ctor_mode && m.method == "collect" && tstr(&m.receiver).ends_with(".into_iter()") && {
                let base = tstr(&m.receiver);
                env.get(base.trim_end_matches(".into_iter()")) == Some(&Ty::Named("VecT".into()))
            } =>
            {
                // row.into_iter().collect::<Vec<T>>(): the row itself
                let base = tstr(&m.receiver);
                k(self, cq(base.trim_end_matches(".into_iter()")), env)
            }
            Expr::MethodCall(m) if self.ctor_mode && tstr(e) == "value.first().map_or(0,|row|row.len())" => {
                let _ = m;
                k(self, "(rows_first_len value)".into(), env)
            }
            Expr::MethodCall(m) if self.arith && m.method == "clone" && m.args.is_empty() && self.ty_of(&m.receiver, env) == Ty::Named("Elem".into()) => {
                // the clone of an element is the element
                self.expr(&m.receiver, env, k)
            }
            Expr::MethodCall(m) if self.arith && m.method == "unwrap_unchecked" && m.args.is_empty() => {
                self.expr(&m.receiver, env, &mut |me, v, env| {
                    let t = me.fresh("w");
                    format!("let* {} := unwrap_unchecked {} in\n  {}", t, v, k(me, t.clone(), env))
                })
            }
            Expr::MethodCall(m) if self.arith && m.method == "reduce" && m.args.len() == 1 => {
                // X.iter().zip(Y).map(|(a, b)| e).reduce(|acc, p| f): left fold of the mapped pairs, None when there are none
                let Expr::MethodCall(mp) = &*m.receiver else { return "(*UNSUPPORTED reduce receiver*)".into() };
                let Expr::MethodCall(zp) = &*mp.receiver else { return "(*UNSUPPORTED reduce receiver*)".into() };
                if mp.method != "map" || zp.method != "zip" || !tstr(&zp.receiver).ends_with(".iter()") {
                    return "(*UNSUPPORTED reduce chain*)".into();
                }
                let xs = tstr(&zp.receiver).trim_end_matches(".iter()").to_string();
                let ys = tstr(&zp.args[0]);
                let (Expr::Closure(mc), Expr::Closure(rc)) = (&mp.args[0], &m.args[0]) else { return "(*UNSUPPORTED closures*)".into() };
                let mp_names: Vec<String> = match mc.inputs.first() {
                    Some(Pat::Tuple(t)) if t.elems.len() == 2 => t.elems.iter().map(tstr).collect(),
                    _ => return "(*UNSUPPORTED map closure*)".into(),
                };
                let rd_names: Vec<String> = rc.inputs.iter().map(tstr).collect();
                if rd_names.len() != 2 {
                    return "(*UNSUPPORTED reduce closure*)".into();
                }
                let mut e2 = env.clone();
                for n in mp_names.iter().chain(rd_names.iter()) {
                    e2.insert(n.clone(), Ty::Named("Elem".into()));
                }
                let mbody = self.expr(&mc.body, &mut e2.clone(), &mut |_, v, _| v);
                let rbody = self.expr(&rc.body, &mut e2.clone(), &mut |_, v, _| v);
                k(
                    self,
                    format!(
                        "(reduce_opt (fun {} {} => {}) (map (fun it => let '({}, {}) := it in {}) (combine {} {})))",
                        cq(&rd_names[0]), cq(&rd_names[1]), rbody, cq(&mp_names[0]), cq(&mp_names[1]), mbody, cq(&xs), cq(&ys)
                    ),
                    env,
                )
            }
            Expr::MethodCall(m) if self.arith && m.args.is_empty() && matches!(m.method.to_string().as_str(), "iter" | "iter_mut" | "into_iter") && tstr(&m.receiver) == "self.data" => {
                // the iterator over the element vector itself: its items in order
                k(self, "(m_data self)".into(), env)
            }
            Expr::MethodCall(m) if self.arith && (m.method == "collect" || m.method == "for_each" || (m.method == "map" && self.owner == "Matrix" && self.fname.contains("iter_elements"))) => {
                // X.data.{iter|into_iter|iter_mut}() [.zip(&Y.data) | .enumerate()] {.map(cl).collect() | .for_each(cl)}
                let mut chain: Vec<&ExprMethodCall> = vec![m];
                let mut cur: &Expr = &m.receiver;
                while let Expr::MethodCall(mc) = cur {
                    chain.push(mc);
                    cur = &mc.receiver;
                }
                chain.reverse(); // innermost first
                let src = tstr(cur);
                let Some(who) = src.strip_suffix(".data") else { return format!("(*UNSUPPORTED iterator source {}*)", src) };
                let names: Vec<String> = chain.iter().map(|c| c.method.to_string()).collect();
                let is_assign = m.method == "for_each";
                let (pairs, nparams, tail): (String, usize, Option<String>) = match names.iter().map(|s| s.as_str()).collect::<Vec<_>>().as_slice() {
                    ["iter" | "into_iter", "zip", "map", "collect"] | ["iter_mut", "zip", "for_each"] => {
                        let other = tstr(&chain[1].args[0]);
                        let Some(o) = other.strip_prefix('&').and_then(|x| x.strip_suffix(".data")) else { return format!("(*UNSUPPORTED zip argument {}*)", other) };
                        (format!("(combine (m_data {}) (m_data {}))", who, o), 2, Some(format!("(m_data {})", who)))
                    }
                    ["iter" | "into_iter", "enumerate", "map", "collect"] | ["iter_mut", "enumerate", "for_each"] | ["iter" | "into_iter" | "iter_mut", "enumerate", "map"] => {
                        (format!("(zenumerate (m_data {}))", who), 2, None)
                    }
                    ["iter" | "into_iter", "map", "collect"] | ["iter_mut", "for_each"] => (format!("(m_data {})", who), 1, None),
                    other => return format!("(*UNSUPPORTED iterator chain {}*)", other.join(".")),
                };
                let clos = if is_assign || m.method == "map" { &m.args[0] } else { &chain[chain.len() - 2].args[0] };
                if let Expr::Path(fp) = clos {
                    // a function passed by name: applied to every item
                    if nparams != 1 {
                        return "(*UNSUPPORTED named function over pairs*)".into();
                    }
                    let f = cq(&tstr(fp));
                    let t = self.fresh("d");
                    return if is_assign {
                        format!("let* {} := map_res (fun x => Val ({} x)) {} in\n  let self := set_data self ({}) in\n  {}", t, f, pairs, t, k(self, "tt".to_string(), env))
                    } else {
                        format!("let* {} := map_res (fun x => Val ({} x)) {} in\n  {}", t, f, pairs, k(self, t.clone(), env))
                    };
                }
                let Expr::Closure(cl) = clos else { return "(*UNSUPPORTED closure argument*)".into() };
                let pnames: Vec<String> = match cl.inputs.first() {
                    Some(Pat::Tuple(t)) if nparams == 2 && cl.inputs.len() == 1 && t.elems.len() == 2 => t.elems.iter().map(tstr).collect(),
                    Some(Pat::Ident(i)) if nparams == 1 && cl.inputs.len() == 1 => vec![i.ident.to_string()],
                    _ => return "(*UNSUPPORTED closure parameters*)".into(),
                };
                let mut e2 = env.clone();
                let enumerated = pairs.starts_with("(zenumerate");
                for (i, pn) in pnames.iter().enumerate() {
                    e2.insert(pn.clone(), if enumerated && i == 0 { Ty::Usize } else { Ty::Named("Elem".into()) });
                }
                let body = self.expr(&cl.body, &mut e2, &mut |_, v, _| format!("Val {}", v));
                let binder = if nparams == 2 {
                    format!("fun it => let '({}, {}) := it in", cq(&pnames[0]), cq(&pnames[1]))
                } else {
                    format!("fun {} =>", cq(&pnames[0]))
                };
                let t = self.fresh("d");
                if is_assign {
                    // the elements the iterator reaches are replaced; a zip that ends early leaves the rest of the vector as it is
                    let rest = match tail {
                        Some(src) => format!(" ++ zskipn (zlen {}) {}", t, src),
                        None => String::new(),
                    };
                    format!(
                        "let* {} := map_res ({}\n    {}) {} in\n  let self := set_data self ({}{}) in\n  {}",
                        t,
                        binder,
                        body,
                        pairs,
                        t,
                        rest,
                        k(self, "tt".to_string(), env)
                    )
                } else {
                    format!("let* {} := map_res ({}\n    {}) {} in\n  {}", t, binder, body, pairs, k(self, t.clone(), env))
                }
            }
            Expr::MethodCall(m) => {
                let rt = self.ty_of(&m.receiver, env);
                let name = m.method.to_string();
                let mut all: Vec<&Expr> = vec![&m.receiver];
                all.extend(m.args.iter());
                let recv_is_self = tstr(&m.receiver) == "self";
                self.exprs(&all, env, &mut |me, vs, env| match (&rt, name.as_str()) {
                    (Ty::Usize, "checked_mul") => k(me, format!("(checked_mul md {} {})", vs[0], vs[1]), env),
                    (Ty::Usize, "saturating_mul") => k(me, format!("(saturating_mul md {} {})", vs[0], vs[1]), env),
                    (Ty::Isize, "unsigned_abs") => k(me, format!("(unsigned_abs {})", vs[0]), env),
                    (Ty::Usize, "get") => k(me, vs[0].clone(), env),
                    // a pointer into self.data is an element index; staying inside the buffer is checked where it is used
                    (Ty::Named(s), "add") if s == "DataPtr" => k(me, format!("({} + {})", vs[0], vs[1]), env),
                    (Ty::Named(s), "into") if s == "Shape" => k(me, vs[0].clone(), env),
                    (Ty::Named(s), "addr") if s == "NonNull" => k(me, vs[0].clone(), env),
                    (Ty::Named(s), "as_mut") if s == "NonNull" => k(me, vs[0].clone(), env),
                    (Ty::Named(s), "add") | (Ty::Named(s), "sub") if s == "NonNull" => {
                        let t = me.fresh("p");
                        format!("let* {} := nn_{} es base bytes {} {} in\n  {}", t, name, vs[0], vs[1], k(me, t.clone(), env))
                    }
                    (Ty::Opt(_), "ok_or") => k(me, format!("(ok_or {} {})", vs[0], vs[1]), env),
                    (Ty::Named(s), "len") if s == "Rows" || s == "VecT" => k(me, format!("(zlen {})", vs[0]), env),
                    (Ty::Named(s), "contains") if s == "Vec" && me.data_mode => k(me, format!("(vec_contains eqT {} {})", vs[0], vs[1]), env),
                    (Ty::Named(s), "get_unchecked") if s == "Vec" && me.data_mode => {
                        let t = me.fresh("g");
                        format!("let* {} := get_unchecked {} {} in\n  {}", t, vs[0], vs[1], k(me, t.clone(), env))
                    }
                    (Ty::Named(s), "len") if s == "Vec" && me.data_mode && vs[0].starts_with("(m_data ") => k(me, format!("(zlen {})", vs[0]), env),
                    (Ty::Named(s), "len") if s == "Vec" => k(me, format!("(vec_len {})", vs[0]), env),
                    (Ty::Named(s), "as_mut_ptr") if s == "Vec" && ptr_owner(&me.owner) => k(me, "base".to_string(), env),
                    (Ty::Named(s), "is_empty") if s == "Vec" => k(me, format!("(vec_len {} =? 0)", vs[0]), env),
                    // the accessors of an index value: caller code, called once per occurrence, in this order
                    (Ty::Named(s), "row") | (Ty::Named(s), "col") if s == "AsIndex" => {
                        let t = me.fresh("a");
                        format!("let* {} := AsIndex_{} {} in\n  {}", t, name, vs[0], k(me, t.clone(), env))
                    }
                    (Ty::Named(s), _) if me.data_mode && recv_is_self && data_fn(s, &name) && !me.callee_is_mut(s, &name) => {
                        let s = s.clone();
                        let t = me.fresh("r");
                        format!("let* {} := G_{}_{} md {} in\n  {}", t, s, name, vs.join(" "), k(me, t.clone(), env))
                    }
                    (Ty::Named(s), _)
                        if me.data_mode
                            && recv_is_self
                            && data_fn(s, &name)
                            && me.cx.fns.get(&(s.clone(), name.clone())).map_or(false, |f| tstr(&f.sig.output) == "->&mutSelf") =>
                    {
                        // a data-mode method returning `&mut Self`: its value is the new matrix
                        if me.ptr_live {
                            return "(*UNSUPPORTED method call on self while a raw pointer into self.data is live*)".into();
                        }
                        let extra = if fuel_fn(&name) && me.arith { " esL fuel" } else if fuel_fn(&name) { " es fuel" } else { "" };
                        format!("let* self := G_{}_{} md{} {} in\n  {}", s, name, extra, vs.join(" "), k(me, "self".to_string(), env))
                    }
                    (Ty::Named(s), _) if me.data_mode && recv_is_self && data_fn(s, &name) => {
                        // another data-mode method: it returns the new matrix together with its result; in tail position
                        let s = s.clone();
                        let t = me.fresh("r");
                        let _ = k;
                        format!("let* {} := G_{}_{} md {} in\n  Val {}", t, s, name, vs.join(" "), t)
                    }
                    (Ty::Named(s), _) if me.data_mode && recv_is_self && me.cx.fns.contains_key(&(s.clone(), name.clone())) => {
                        let s = s.clone();
                        let mut a = vs.clone();
                        a[0] = "(mview self)".to_string();
                        // another matrix handed to a size / shape function: what such a function sees of it
                        for (i, arg) in m.args.iter().enumerate() {
                            let inner: &Expr = if let Expr::Reference(r) = arg { &r.expr } else { arg };
                            if matches!(inner, Expr::Path(_)) && env.get(&tstr(inner)) == Some(&Ty::Named("Matrix".into())) {
                                a[i + 1] = format!("(mview {})", vs[i + 1]);
                            }
                        }
                        me.call(&s, &name, a, env, k)
                    }
                    (Ty::Named(s), _)
                        if me.arith
                            && s == "Matrix"
                            && matches!(&*m.receiver, Expr::Path(_))
                            && !recv_is_self
                            && fuel_fn(&name)
                            && me.cx.fns.get(&(s.clone(), name.clone())).map_or(false, |f| tstr(&f.sig.output) == "->&mutSelf") =>
                    {
                        // rhs.set_order(..): the other operand (taken by value) is replaced by the method's result
                        let who = tstr(&m.receiver);
                        format!("let* {} := G_{}_{} md esR fuel2 {} in\n  {}", who, s, name, vs.join(" "), k(me, who.clone(), env))
                    }
                    (Ty::Named(s), _) if me.data_mode && s == "Matrix" && matches!(&*m.receiver, Expr::Path(_)) && !recv_is_self && data_fn(s, &name) && view_fn(&name) => {
                        // a view of another matrix
                        let s = s.clone();
                        let t = me.fresh("r");
                        format!("let* {} := G_{}_{} md {} in\n  {}", t, s, name, vs.join(" "), k(me, t.clone(), env))
                    }
                    (Ty::Named(s), _)
                        if me.data_mode && s == "Matrix" && matches!(&*m.receiver, Expr::Path(_)) && !me.callee_is_mut(s, &name) && me.cx.fns.contains_key(&(s.clone(), name.clone())) =>
                    {
                        // a size / stride accessor of another matrix
                        let s = s.clone();
                        let mut a = vs.clone();
                        a[0] = format!("(mview {})", vs[0]);
                        me.call(&s, &name, a, env, k)
                    }
                    (Ty::Named(s), _) if me.cx.fns.contains_key(&(s.clone(), name.clone())) => {
                        let s = s.clone();
                        if me.callee_is_mut(&s, &name) {
                            // a `&mut self` method: its result is the new receiver
                            let recv_txt = tstr(&m.receiver);
                            if me.data_mode && recv_txt.starts_with("self.") && !recv_txt[5..].contains('.') {
                                // self.field.method(): the field of the matrix is replaced by the method's new receiver
                                let t = me.fresh("r");
                                return format!(
                                    "let* {} := G_{}_{} md {} in\n  let self := set_m_{} self {} in\n  {}",
                                    t,
                                    s,
                                    name,
                                    vs.join(" "),
                                    &recv_txt[5..],
                                    t,
                                    k(me, t.clone(), env)
                                );
                            }
                            let returns_self = me.cx.fns.get(&(s.clone(), name.clone())).map_or(false, |f| tstr(&f.sig.output) == "->&mutSelf");
                            if !recv_is_self && returns_self && matches!(&*m.receiver, Expr::Call(_) | Expr::MethodCall(_)) {
                                // a `&mut self -> &mut Self` method on a temporary: the value is the updated temporary
                                return me.call(&s, &name, vs, env, k);
                            }
                            if !recv_is_self {
                                return format!("(*UNSUPPORTED &mut method {} on a non-self receiver*)", name);
                            }
                            let t = me.fresh("r");
                            format!("let* {} := G_{}_{} md {} in\n  let self := {} in\n  {}", t, s, name, vs.join(" "), t, k(me, t.clone(), env))
                        } else {
                            me.call(&s, &name, vs, env, k)
                        }
                    }
                    _ => format!("(*UNSUPPORTED method {}.{}*)", coq_ty(&rt), name),
                })
            }
            Expr::Macro(m) if self.ctor_mode && tstr(&m.mac.path) == "vec" => {
                let toks = m.mac.tokens.to_string();
                let parts: Vec<&str> = toks.split(';').collect();
                if parts.len() != 2 {
                    return "(*UNSUPPORTED vec! form*)".into();
                }
                let (Ok(v), Ok(n)) = (syn::parse_str::<Expr>(parts[0]), syn::parse_str::<Expr>(parts[1])) else { return "(*UNSUPPORTED vec! arguments*)".into() };
                self.exprs(&[&v, &n], env, &mut |me, vs, env| k(me, format!("(zrepeat {} {})", vs[0], vs[1]), env))
            }
            _ => format!("(*UNSUPPORTED expression {}*)", tstr(e)),
        }
    }
    fn exprs(&mut self, es: &[&Expr], env: &mut Env, k: &mut dyn FnMut(&mut Self, Vec<String>, &mut Env) -> String) -> String {
        self.exprs_go(es, vec![], env, k)
    }
    fn exprs_go(&mut self, es: &[&Expr], acc: Vec<String>, env: &mut Env, k: &mut dyn FnMut(&mut Self, Vec<String>, &mut Env) -> String) -> String {
        if es.is_empty() {
            return k(self, acc, env);
        }
        self.expr(es[0], env, &mut |me, v, env| {
            let mut a = acc.clone();
            a.push(v);
            me.exprs_go(&es[1..], a, env, k)
        })
    }
}

// the functions translated, callees before callers
const TARGETS: &[(&str, &str)] = &[
    ("Order", "switch"),
    ("Shape", "size"),
    ("Shape", "transpose"),
    ("Shape", "to_axis_shape_unchecked"),
    ("Shape", "try_to_axis_shape"),
    ("AxisShape", "major"),
    ("AxisShape", "minor"),
    ("AxisShape", "major_stride"),
    ("AxisShape", "minor_stride"),
    ("AxisShape", "size"),
    ("AxisShape", "transpose"),
    ("AxisShape", "nrows"),
    ("AxisShape", "ncols"),
    ("AxisShape", "to_shape"),
    ("Index", "swap"),
    ("AxisIndex", "swap"),
    ("AxisIndex", "from_index"),
    ("AxisIndex", "to_index"),
    ("AxisIndex", "from_wrapping_index"),
    ("AxisIndex", "from_flattened"),
    ("AxisIndex", "to_flattened"),
    ("Index", "from_flattened"),
    ("Index", "to_flattened"),
    ("Matrix", "nrows"),
    ("Matrix", "ncols"),
    ("Matrix", "size"),
    ("Matrix", "is_empty"),
    ("Matrix", "major"),
    ("Matrix", "minor"),
    ("Matrix", "major_stride"),
    ("Matrix", "minor_stride"),
    ("Matrix", "check_size"),
    ("Matrix", "is_elementwise_operation_conformable"),
    ("Matrix", "is_multiplication_like_operation_conformable"),
    ("AxisIndex", "is_out_of_bounds"),
    ("Shape", "new"),
    ("Shape", "nrows"),
    ("Shape", "ncols"),
    ("Matrix", "shape"),
    ("Matrix", "is_square"),
    ("Matrix", "ensure_square"),
    ("Matrix", "ensure_elementwise_operation_conformable"),
    ("Matrix", "ensure_multiplication_like_operation_conformable"),
    ("Matrix", "reshape"),
    // swap.rs: raw-pointer moves inside self.data (data mode)
    ("Matrix", "swap_major_axis_vectors"),
    ("Matrix", "swap_minor_axis_vectors"),
    ("Matrix", "swap_rows"),
    ("Matrix", "swap_cols"),
    // lib.rs: transpose (cycle following over raw pointers) and the order changes built on it (data mode)
    ("Matrix", "transpose"),
    ("Matrix", "switch_order"),
    ("Matrix", "switch_order_without_rearrangement"),
    ("Matrix", "set_order"),
    ("Matrix", "set_order_without_rearrangement"),
    // eq.rs: PartialEq
    ("Matrix", "eq"),
    // lib.rs: overwrite (unchecked sub-slices, clone_from_slice, the strided zip)
    ("Matrix", "overwrite"),
    // lib.rs: resize (normal execution; the unwind guard is the fault model's business)
    ("Matrix", "resize"),
    // arithmetic.rs: the elementwise and scalar drivers
    ("Matrix", "elementwise_operation"),
    ("Matrix", "elementwise_operation_consume_self"),
    ("Matrix", "elementwise_operation_assign"),
    ("Matrix", "scalar_operation"),
    ("Matrix", "scalar_operation_consume_self"),
    ("Matrix", "scalar_operation_assign"),
    // arithmetic.rs: the slice of one major-axis vector and the closure-taking product
    ("Matrix", "get_nth_major_axis_vector"),
    ("Matrix", "multiplication_like_operation"),
    // iter.rs: the element iterators
    ("Matrix", "iter_elements"),
    ("Matrix", "iter_elements_mut"),
    ("Matrix", "into_iter_elements"),
    ("Matrix", "iter_elements_with_index"),
    ("Matrix", "iter_elements_mut_with_index"),
    ("Matrix", "into_iter_elements_with_index"),
    // mul.rs: the dot product of two slices and the product built on it
    ("Free", "dot_product"),
    ("Matrix", "multiply"),
    // lib.rs: apply / map / map_ref / clear / contains
    ("Matrix", "apply"),
    ("Matrix", "map"),
    ("Matrix", "map_ref"),
    ("Matrix", "clear"),
    ("Matrix", "contains"),
    // construct.rs: the constructors
    ("Matrix", "new"),
    ("Matrix", "with_capacity"),
    ("Matrix", "with_default"),
    ("Matrix", "with_value"),
    ("Matrix", "with_initializer"),
    // convert.rs: TryFrom<[Vec<T>; C]>, TryFrom<Vec<Vec<T>>>, TryFrom<&[Vec<T>]>
    ("Matrix", "try_from_array"),
    ("Matrix", "try_from_vec"),
    ("Matrix", "try_from_slice"),
    ("Matrix", "from_iter"),
    // iter.rs: the immutable row / column views (data mode)
    ("Matrix", "iter_nth_major_axis_vector_unchecked"),
    ("Matrix", "iter_nth_minor_axis_vector_unchecked"),
    ("Matrix", "iter_nth_major_axis_vector"),
    ("Matrix", "iter_nth_minor_axis_vector"),
    ("Matrix", "iter_nth_major_axis_vector_unchecked_mut"),
    ("Matrix", "iter_nth_minor_axis_vector_unchecked_mut"),
    ("Matrix", "iter_nth_major_axis_vector_mut"),
    ("Matrix", "iter_nth_minor_axis_vector_mut"),
    ("Matrix", "iter_nth_row"),
    ("Matrix", "iter_nth_col"),
    ("Matrix", "iter_nth_row_mut"),
    ("Matrix", "iter_nth_col_mut"),
    // the pointer-level state machines of iter/iter_mut.rs
    ("IterNthVectorMut", "assemble"),
    ("IterNthVectorMut", "next"),
    ("IterNthVectorMut", "next_back"),
    ("IterNthVectorMut", "size_hint"),
    ("IterVectorsMut", "assemble"),
    ("IterVectorsMut", "next"),
    ("IterVectorsMut", "next_back"),
    ("IterVectorsMut", "size_hint"),
    // the constructors of the outer machine and the two public entry points that select them
    ("IterVectorsMut", "empty"),
    ("IterVectorsMut", "over_major_axis"),
    ("IterVectorsMut", "over_minor_axis"),
    ("Matrix", "iter_rows_mut"),
    ("Matrix", "iter_cols_mut"),
];

fn main() {
    let mut cx = Ctx::default();
    for p in std::env::args().skip(1) {
        let src = std::fs::read_to_string(&p).unwrap_or_else(|e| panic!("{p}: {e}"));
        let file = parse_file(&src).unwrap_or_else(|e| panic!("{p}: {e}"));
        for it in file.items {
            match it {
                Item::Fn(f) if f.sig.ident == "dot_product" => {
                    cx.fns.entry(("Free".to_string(), "dot_product".to_string())).or_insert(FnInfo { sig: f.sig, block: *f.block });
                }
                Item::Enum(en) => {
                    // #[derive(Default)] with a #[default] variant
                    for v in &en.variants {
                        if v.attrs.iter().any(|a| tstr(a).contains("default")) && v.fields.is_empty() {
                            cx.defaults.insert(en.ident.to_string(), v.ident.to_string());
                        }
                    }
                }
                Item::Struct(s) if s.attrs.iter().any(|a| tstr(a).contains("derive") && tstr(a).contains("Default")) && !s.fields.is_empty()
                    && s.fields.iter().all(|f| tstr(&f.ty) == "usize") =>
                {
                    // #[derive(Default)] on a struct of usize fields: all zero
                    let zeros: Vec<&str> = s.fields.iter().map(|_| "0").collect();
                    cx.defaults.insert(s.ident.to_string(), format!("(Build_{} {})", s.ident, zeros.join(" ")));
                    let fs = s.fields.iter().filter_map(|f| f.ident.as_ref().map(|i| (i.to_string(), conv_ty(&f.ty, &s.ident.to_string())))).collect();
                    cx.structs.insert(s.ident.to_string(), fs);
                }
                Item::Struct(s) => {
                    let fs = s.fields.iter().filter_map(|f| f.ident.as_ref().map(|i| (i.to_string(), conv_ty(&f.ty, &s.ident.to_string())))).collect();
                    cx.structs.insert(s.ident.to_string(), fs);
                }
                Item::Impl(i) => {
                    // inherent impls, and the MatrixIndex impl of AxisIndex (is_out_of_bounds)
                    let owner = tstr(&i.self_ty).split('<').next().unwrap().to_string();
                    let trait_name = i.trait_.as_ref().map(|(_, p, _)| p.segments.last().unwrap().ident.to_string());
                    let iter_impl = ptr_owner(&owner) && matches!(trait_name.as_deref(), Some("Iterator") | Some("DoubleEndedIterator"));
                    let eq_impl = (trait_name.as_deref() == Some("PartialEq") || trait_name.as_deref() == Some("FromIterator")) && owner == "Matrix";
                    if !(trait_name.is_none() || iter_impl || eq_impl || (trait_name.as_deref() == Some("MatrixIndex") && owner == "AxisIndex")) {
                        continue;
                    }
                    for ii in i.items {
                        if let ImplItem::Fn(f) = ii {
                            cx.fns.entry((owner.clone(), f.sig.ident.to_string())).or_insert(FnInfo { sig: f.sig, block: f.block });
                        }
                    }
                    continue;
                }
                _ => {}
            }
        }
    }
    // convert.rs: the three fallible conversions from rows, told apart by the type they convert from
    for p in std::env::args().skip(1) {
        let src = std::fs::read_to_string(&p).unwrap();
        let file = parse_file(&src).unwrap();
        for it in file.items {
            match it {
                Item::Impl(i) => {
                    let owner = tstr(&i.self_ty).split('<').next().unwrap().to_string();
                    let Some((_, tp, _)) = i.trait_.as_ref() else { continue };
                    let seg = tp.segments.last().unwrap();
                    if owner != "Matrix" || seg.ident != "TryFrom" {
                        continue;
                    }
                    let name = match tstr(&seg.arguments).as_str() {
                        "<[Vec<T>;C]>" => "try_from_array",
                        "<Vec<Vec<T>>>" => "try_from_vec",
                        "<&[Vec<T>]>" => "try_from_slice",
                        _ => continue,
                    };
                    for ii in i.items {
                        if let ImplItem::Fn(f) = ii {
                            if f.sig.ident == "try_from" {
                                cx.fns.entry((owner.clone(), name.to_string())).or_insert(FnInfo { sig: f.sig, block: f.block });
                            }
                        }
                    }
                }
                _ => {}
            }
        }
    }
    println!("(* GENERATED by rs2v from the Rust source - do not edit.  One definition per source function. *)");
    println!("From Matreex Require Import Gen.Prelude.\n");
    for (o, n) in TARGETS {
        let n_fn: &str = n;
        let Some(f) = cx.fns.get(&(o.to_string(), n.to_string())) else {
            println!("(*UNSUPPORTED missing function {}::{} *)\nDefinition G_{}_{} := missing_source_function.\n", o, n, o, n);
            continue;
        };
        let sig = f.sig.clone();
        let block = f.block.clone();
        let uses_es0 = fn_uses_es(f);
        let mut env = Env::new();
        let mut params = vec![];
        let mut self_mut = false;
        for a in &sig.inputs {
            match a {
                FnArg::Receiver(r) => {
                    self_mut = r.mutability.is_some() && r.reference.is_some() && !(*o == "Matrix" && (view_fn(n) || ptr_fn(o, n) || n.contains("iter_elements")));
                    params.push(format!("(self : G{})", o));
                }
                FnArg::Typed(t) => {
                    let mut ty = conv_ty(&t.ty, o);
                    let n = tstr(&t.pat).replace("mut", "");
                    if (n_fn.starts_with("try_from_") && n == "value") || (n_fn == "from_iter" && n == "iter") {
                        ty = Ty::Named("Rows".into());
                    }
                    if arith_fn(o, n_fn) {
                        if n_fn == "dot_product" {
                            ty = Ty::Named("VecT".into());
                        } else if n == "op" && n_fn == "multiplication_like_operation" {
                            ty = Ty::Named("OpFnM".into());
                        } else if n == "op" {
                            ty = Ty::Named("OpFn".into());
                        } else if n == "scalar" {
                            ty = Ty::Named("Elem".into());
                        }
                    }
                    env.insert(n.clone(), ty.clone());
                    params.push(format!("({} : {})", n, coq_ty(&ty)));
                }
            }
        }
        let ret = match &sig.output {
            ReturnType::Default => Ty::Unit,
            // iter_rows_mut / iter_cols_mut return `impl Iterator`: the value is the IterVectorsMut they build
            ReturnType::Type(_, _) if *o == "Matrix" && ptr_fn(o, n) => Ty::Named("IterVectorsMut".into()),
            ReturnType::Type(_, t) => conv_ty(t, o),
        };
        let am = arith_fn(o, n);
        let cm = ctor_fn(o, n) || (am && !self_mut);
        let dm = data_fn(o, n) || cm || am;
        let ret_self = dm && tstr(&sig.output) == "->&mutSelf";
        let mut tr = Tr {
            cx: &mut cx,
            owner: o.to_string(),
            self_mut,
            uses_es: uses_es0,
            data_mode: dm,
            has_data: false,
            ptr_live: false,
            ctor_mode: cm,
            fname: n.to_string(),
            ret_result: matches!(ret, Ty::Res(_)),
            arith: am,
            ret_self,
            mut_locals: vec![],
            aliases: HashMap::new(),
            loop_state: None,
        };
        if *o == "Matrix" && *n == "overwrite" {
            // the element vector of the receiver is the state the loops update
            tr.has_data = true;
            tr.ptr_live = true;
        }
        let body = tr.block(&block.stmts, &mut env, &mut |me, v, _| me.finish(v));
        let body = if *o == "Matrix" && *n == "overwrite" { format!("let data := m_data self in\n  {}", body) } else { body };
        let _ = tr.self_mut;
        let es = if ptr_fn(o, n) {
            " (es al base bytes : Z)"
        } else if uses_es0 {
            " (es : Z)"
        } else {
            ""
        };
        let rty = if self_mut && tstr(&sig.output) != "->&mutSelf" { format!("(G{} * {})", o, coq_ty(&ret)) } else { coq_ty(&ret) };
        if am {
            let (tys, ps, rty) = arith_sig(n).unwrap();
            println!("Definition G_{}_{} {} (md : cfg) {} : res {} :=\n  {}.\n", o, n, tys, ps, rty, body);
            continue;
        }
        if cm {
            let uses_dflt = tstr(&block).contains("T::default");
            let rty = match &ret {
                Ty::Res(_) => "(result (matrix A))".to_string(),
                _ => "(matrix A)".to_string(),
            };
            let es = if uses_es0 || body.contains(" es ") { "(es : Z) " } else { "" };
            let dflt = if uses_dflt { "(dflt : A) " } else { "" };
            println!("Definition G_{}_{} {{A : Type}} (md : cfg) {}{}{} : res {} :=\n  {}.\n", o, n, es, dflt, params.join(" "), rty, body);
            continue;
        }
        if dm {
            let ps: Vec<String> = params
                .iter()
                .map(|p| if p.starts_with("(self") { "(self : matrix A)".to_string() } else { p.replace(": GMatrix)", ": matrix A)") })
                .collect();
            let rty = if ret_self {
                "(matrix A)".to_string()
            } else if self_mut {
                "(matrix A * result unit)".to_string()
            } else {
                match &ret {
                    Ty::Res(_) => "(result (list A))".to_string(),
                    Ty::Bool => "bool".to_string(),
                    _ => "(list A)".to_string(),
                }
            };
            let extra = if fuel_fn(n) {
                "(es : Z) (fuel : nat) "
            } else if body.contains("eqT") {
                "(eqT : A -> A -> bool) "
            } else if body.contains("map clone") {
                "(clone : A -> A) "
            } else if body.contains(" dflt") {
                "(es : Z) (dflt : A) "
            } else {
                ""
            };
            println!("Definition G_{}_{} {{A : Type}} (md : cfg) {}{} : res {} :=\n  {}.\n", o, n, extra, ps.join(" "), rty, body);
            continue;
        }
        println!("Definition G_{}_{} (md : cfg){} {} : res {} :=\n  {}.\n", o, n, es, params.join(" "), rty, body);
    }
}
