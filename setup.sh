#!/bin/sh
# Builds everything the checks need, offline, from files on disk only:
# the Coq development (full .vo), the extracted model + OCaml driver, the Rust harness (debug and release).
set -e
cd "$(dirname "$0")"
export CARGO_NET_OFFLINE=true
mkdir -p build evidence replays
exec python3 ./check build
