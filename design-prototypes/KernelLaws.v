(* Feasibility prototype (design round): the integer laws behind C08, C13 and the cross-order remap of
   C07/C12, width-parametric (UMAX, IMAX abstract with UMAX = 2*IMAX+1), both overflow modes.
   Definitions are written in the form the translator emits for src/shape.rs:80-106, src/lib.rs:742-748,
   src/index.rs:564-598. *)
From Coq Require Import ZArith Lia Bool.
Open Scope Z_scope.

Inductive res (A : Type) := Val (a : A) | Panic (why : Z) | UB (why : Z).
Arguments Val {A} a. Arguments Panic {A} why. Arguments UB {A} why.
Definition bind {A B} (x : res A) (k : A -> res B) : res B := match x with Val a => k a | Panic w => Panic w | UB w => UB w end.
Notation "'let*' x ':=' e 'in' k" := (bind e (fun x => k)) (at level 200, x pattern, e at level 100, k at level 200).
Inductive mode := Debug | Release.
Inductive error := SizeOverflow | SizeMismatch | CapacityOverflow | IndexOutOfBounds.
Inductive result (A : Type) := Ok (a : A) | Err (e : error).
Arguments Ok {A} a. Arguments Err {A} e.

Section Laws.
Variables UMAX IMAX : Z.
Hypothesis HI : IMAX >= 32767.
Hypothesis HU : UMAX = 2 * IMAX + 1.
Variable md : mode.
Definition wrap (x : Z) := x mod (UMAX + 1).
Definition uadd (a b : Z) : res Z := if a + b <=? UMAX then Val (a + b) else match md with Debug => Panic 1 | Release => Val (wrap (a + b)) end.
Definition usub (a b : Z) : res Z := if b <=? a then Val (a - b) else match md with Debug => Panic 2 | Release => Val (wrap (a - b)) end.
Definition umul (a b : Z) : res Z := if a * b <=? UMAX then Val (a * b) else match md with Debug => Panic 3 | Release => Val (wrap (a * b)) end.
Definition urem (a b : Z) : res Z := if b =? 0 then Panic 5 else Val (a mod b).
Definition checked_mul (a b : Z) : option Z := if a * b <=? UMAX then Some (a * b) else None.
Definition saturating_mul (a b : Z) : Z := Z.min (a * b) UMAX.

(* ---- C08 ---- *)
Definition Shape_size (r c : Z) : result Z := match checked_mul r c with Some n => Ok n | None => Err SizeOverflow end.
Definition try_to_axis_shape_size (r c : Z) : res (result Z) :=           (* try_to_axis_shape; then AxisShape::size = major * minor *)
  match Shape_size r c with Err e => Val (Err e) | Ok _ => let* n := umul r c in Val (Ok n) end.
Definition check_size (es size : Z) : result Z := if saturating_mul es size >? IMAX then Err CapacityOverflow else Ok size.
Definition decide_ctor (es r c : Z) : res (result Z) :=                     (* with_default / with_value / with_initializer / resize / TryFrom *)
  let* s := try_to_axis_shape_size r c in
  match s with Err e => Val (Err e) | Ok n => Val (check_size es n) end.
Definition decide_reshape (len r c : Z) : res (result Z) :=                 (* src/lib.rs:437-444 *)
  let* s := try_to_axis_shape_size r c in
  match s with Err _ => Val (Err SizeMismatch) | Ok n => if negb (len =? n) then Val (Err SizeMismatch) else Val (Ok n) end.

Theorem C08_ctor_decision es r c : 0 <= r <= UMAX -> 0 <= c <= UMAX -> 0 <= es ->
  decide_ctor es r c = Val (if r * c >? UMAX then Err SizeOverflow
                            else if es * (r * c) >? IMAX then Err CapacityOverflow else Ok (r * c)).
Proof.
  intros Hr Hc He. unfold decide_ctor, try_to_axis_shape_size, Shape_size, checked_mul, umul, check_size, saturating_mul, bind.
  destruct (r * c <=? UMAX) eqn:E.
  - assert (r * c >? UMAX = false) as -> by lia. f_equal.
    assert (0 <= r * c) by nia. assert (0 <= es * (r * c)) by nia.
    destruct (Z.min (es * (r * c)) UMAX >? IMAX) eqn:E1, (es * (r * c) >? IMAX) eqn:E2; auto; lia.
  - assert (r * c >? UMAX = true) as -> by lia. reflexivity.
Qed.

Theorem C08_reshape_decision len r c : 0 <= r <= UMAX -> 0 <= c <= UMAX ->
  decide_reshape len r c = Val (if (r * c >? UMAX) || negb (len =? r * c) then Err SizeMismatch else Ok (r * c)).
Proof.
  intros Hr Hc. unfold decide_reshape, try_to_axis_shape_size, Shape_size, checked_mul, umul, bind.
  destruct (r * c <=? UMAX) eqn:E.
  - assert (r * c >? UMAX = false) as -> by lia. cbn [orb]. destruct (negb (len =? r * c)); reflexivity.
  - assert (r * c >? UMAX = true) as -> by lia. reflexivity.
Qed.

(* ---- C13: one axis of AxisIndex::from_wrapping_index ---- *)
Definition wrap_axis (i m : Z) : res Z :=
  if i <? 0 then let* t1 := urem (Z.abs i) m in let* t2 := usub m t1 in urem t2 m      (* (m - |i| % m) % m *)
  else urem i m.                                                                           (* i as usize % m *)

Theorem C13_wrap_axis i m : - IMAX - 1 <= i <= IMAX -> 0 < m <= UMAX -> wrap_axis i m = Val (i mod m).
Proof.
  intros Hi Hm. unfold wrap_axis, urem, usub, bind.
  assert (m =? 0 = false) as -> by lia.
  destruct (i <? 0) eqn:Hneg; [|reflexivity].
  pose proof (Z.mod_pos_bound (Z.abs i) m ltac:(lia)).
  assert (Z.abs i mod m <=? m = true) as -> by lia. f_equal.
  assert (Z.abs i = - i) as -> by lia.
  pose proof (Z.mod_pos_bound i m ltac:(lia)).
  destruct (Z.eq_dec (i mod m) 0) as [E|E].
  - rewrite (Z.mod_opp_l_z i m) by lia. rewrite Z.sub_0_r, Z.mod_same by lia. lia.
  - rewrite (Z.mod_opp_l_nz i m) by lia. replace (m - (m - i mod m)) with (i mod m) by lia. apply Z.mod_small; lia.
Qed.
Theorem C13_wrap_axis_empty i : wrap_axis i 0 = Panic 5.
Proof. unfold wrap_axis, urem, bind. destruct (i <? 0); reflexivity. Qed.

(* ---- C07 / C12: cross-order remap  from_flattened(x, (M,m)).swap().to_flattened((m,M)) ---- *)
Definition remap (M m x : Z) : Z := (x mod m) * M + x / m.
Theorem remap_pairs_equal_positions M m i j : 0 <= i < M -> 0 <= j < m ->
  remap M m (i * m + j) = j * M + i /\ 0 <= j * M + i < M * m.
Proof.
  intros Hi Hj. unfold remap.
  replace (i * m + j) with (j + i * m) by lia.
  rewrite Z.mod_add, Z.div_add by lia. rewrite Z.mod_small, Z.div_small by lia. split; nia.
Qed.
End Laws.
Print Assumptions C08_ctor_decision.
Print Assumptions C13_wrap_axis.
Print Assumptions remap_pairs_equal_positions.
