From K Require Import Prelude.
(* pasted verbatim from design-prototypes/rs2v-spike/sample-output.v *)
Definition AxisShape_major (md : mode) (self : AxisShape) : res Z :=
  Val (f_AxisShape_major self).

Definition AxisShape_minor (md : mode) (self : AxisShape) : res Z :=
  Val (f_AxisShape_minor self).

Definition AxisShape_major_stride (md : mode) (self : AxisShape) : res Z :=
  Val (f_AxisShape_minor self).

Definition AxisShape_minor_stride (md : mode) (self : AxisShape) : res Z :=
  Val 1.

Definition AxisIndex_swap (md : mode) (self : AxisIndex) : res (AxisIndex * AxisIndex) :=
  let '(t_0, t_1) := ((f_AxisIndex_minor self), (f_AxisIndex_major self)) in
  let self := set_AxisIndex_major self t_0 in
  let self := set_AxisIndex_minor self t_1 in
  Val (self, self).

Definition AxisIndex_from_flattened (md : mode) (index : Z) (shape : AxisShape) : res AxisIndex :=
  let* r9 := AxisShape_major_stride md shape in
  let* t10 := udiv md index r9 in
  let major := t10 in
  let* r11 := AxisShape_major_stride md shape in
  let* t12 := urem md index r11 in
  let* r13 := AxisShape_minor_stride md shape in
  let* t14 := udiv md t12 r13 in
  let minor := t14 in
  Val (Build_AxisIndex major minor).

Definition AxisIndex_to_flattened (md : mode) (self : AxisIndex) (shape : AxisShape) : res Z :=
  let* r15 := AxisShape_major_stride md shape in
  let* t16 := umul md (f_AxisIndex_major self) r15 in
  let* r17 := AxisShape_minor_stride md shape in
  let* t18 := umul md (f_AxisIndex_minor self) r17 in
  let* t19 := uadd md t16 t18 in
  Val t19.
