From Coq Require Export ZArith Lia Bool.
Open Scope Z_scope.
Inductive res (A : Type) := Val (a : A) | Panic (why : Z) | UB (why : Z).
Arguments Val {A} a. Arguments Panic {A} why. Arguments UB {A} why.
Definition bind {A B} (x : res A) (k : A -> res B) : res B := match x with Val a => k a | Panic w => Panic w | UB w => UB w end.
Notation "'let*' x ':=' e 'in' k" := (bind e (fun x => k)) (at level 200, x pattern, e at level 100, k at level 200).
Inductive mode := Debug | Release.
Inductive result (A : Type) := Ok (a : A) | Err (e : Z).
Arguments Ok {A} a. Arguments Err {A} e.
Definition UMAX : Z := 18446744073709551615.
Definition wrap (x : Z) := x mod (UMAX + 1).
Definition uadd (md : mode) (a b : Z) : res Z := if a + b <=? UMAX then Val (a + b) else match md with Debug => Panic 1 | Release => Val (wrap (a + b)) end.
Definition usub (md : mode) (a b : Z) : res Z := if b <=? a then Val (a - b) else match md with Debug => Panic 2 | Release => Val (wrap (a - b)) end.
Definition umul (md : mode) (a b : Z) : res Z := if a * b <=? UMAX then Val (a * b) else match md with Debug => Panic 3 | Release => Val (wrap (a * b)) end.
Definition udiv (md : mode) (a b : Z) : res Z := if b =? 0 then Panic 4 else Val (a / b).
Definition urem (md : mode) (a b : Z) : res Z := if b =? 0 then Panic 5 else Val (a mod b).
Record AxisShape := Build_AxisShape { f_AxisShape_major : Z; f_AxisShape_minor : Z }.
Record AxisIndex := Build_AxisIndex { f_AxisIndex_major : Z; f_AxisIndex_minor : Z }.
Definition set_AxisIndex_major (s : AxisIndex) v := Build_AxisIndex v (f_AxisIndex_minor s).
Definition set_AxisIndex_minor (s : AxisIndex) v := Build_AxisIndex (f_AxisIndex_major s) v.
