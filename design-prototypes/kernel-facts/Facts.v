From K Require Import Prelude Gen.
Ltac Zify.zify_post_hook ::= Z.div_mod_to_equations.

(* one generic tactic for facts about generated kernel text *)
Lemma uadd_val md a b : 0 <= a + b <= UMAX -> uadd md a b = Val (a + b).
Proof. intros H. unfold uadd. destruct (a + b <=? UMAX) eqn:E; [reflexivity|lia]. Qed.
Lemma umul_val md a b : 0 <= a * b <= UMAX -> umul md a b = Val (a * b).
Proof. intros H. unfold umul. destruct (a * b <=? UMAX) eqn:E; [reflexivity|lia]. Qed.
Lemma udiv_val md a b : b <> 0 -> udiv md a b = Val (a / b).
Proof. intros H. unfold udiv. destruct (b =? 0) eqn:E; [lia|reflexivity]. Qed.
Lemma urem_val md a b : b <> 0 -> urem md a b = Val (a mod b).
Proof. intros H. unfold urem. destruct (b =? 0) eqn:E; [lia|reflexivity]. Qed.

Ltac kstep :=
  cbn [bind f_AxisShape_major f_AxisShape_minor f_AxisIndex_major f_AxisIndex_minor];
  first [ rewrite uadd_val by nia | rewrite umul_val by nia | rewrite udiv_val by lia | rewrite urem_val by lia ].
Ltac kcrush := unfold AxisIndex_to_flattened, AxisIndex_from_flattened, AxisIndex_swap, AxisShape_major_stride, AxisShape_minor_stride, AxisShape_major, AxisShape_minor,
                      set_AxisIndex_major, set_AxisIndex_minor;
               repeat kstep; cbn [bind f_AxisShape_major f_AxisShape_minor f_AxisIndex_major f_AxisIndex_minor].

Lemma to_flattened_spec md i s :
  0 <= f_AxisIndex_major i < f_AxisShape_major s -> 0 <= f_AxisIndex_minor i < f_AxisShape_minor s ->
  f_AxisShape_major s * f_AxisShape_minor s <= UMAX ->
  AxisIndex_to_flattened md i s = Val (f_AxisIndex_major i * f_AxisShape_minor s + f_AxisIndex_minor i).
Proof. intros H1 H2 H3. destruct i as [a b], s as [M m]; cbn in *. kcrush. f_equal. lia. Qed.

Lemma from_flattened_spec md x s : 0 <= x -> 0 < f_AxisShape_minor s ->
  AxisIndex_from_flattened md x s = Val (Build_AxisIndex (x / f_AxisShape_minor s) (x mod f_AxisShape_minor s)).
Proof. intros H1 H2. destruct s as [M m]; cbn in *. kcrush. rewrite Z.div_1_r. reflexivity. Qed.

Lemma flat_roundtrip md x s : 0 <= f_AxisShape_major s -> 0 <= f_AxisShape_minor s ->
  0 <= x < f_AxisShape_major s * f_AxisShape_minor s -> f_AxisShape_major s * f_AxisShape_minor s <= UMAX ->
  exists i, AxisIndex_from_flattened md x s = Val i /\ AxisIndex_to_flattened md i s = Val x.
Proof.
  intros HM Hm H1 H2. destruct s as [M m]; cbn [f_AxisShape_major f_AxisShape_minor] in *. assert (0 < m) by nia.
  assert (0 <= x / m < M) by (split; [apply Z.div_pos; lia | apply Z.div_lt_upper_bound; nia]).
  assert (0 <= x mod m < m) by (apply Z.mod_pos_bound; lia).
  eexists. split; [apply from_flattened_spec; cbn [f_AxisShape_minor]; lia|].
  rewrite to_flattened_spec; cbn [f_AxisShape_major f_AxisShape_minor f_AxisIndex_major f_AxisIndex_minor]; try lia.
  f_equal. pose proof (Z.div_mod x m). lia.
Qed.
Print Assumptions flat_roundtrip.
