(* Feasibility prototype (design round): C11.  Matrix::multiply after both operands have been re-laid
   out (lhs row-major n x K, rhs column-major, i.e. m contiguous columns of length K), result pushed
   row by row (src/arithmetic/mul.rs:212-226).  No algebraic law is assumed of [mul]/[add]: the
   theorem pins the factor order (lhs left), the summation order (k ascending, left-nested) and that
   every k contributes exactly once.  The zero-inner-dimension path never reaches [dot]. *)
From Coq Require Import Arith Lia List.
Import ListNotations.
From P Require Import ListLayout.

Section Mul.
Variables L R U : Type.
Variable mul : L -> R -> U.
Variable add : U -> U -> U.
Variables (dl : L) (dr : R) (du : U).

Definition reduce (l : list U) : option U := match l with [] => None | x :: t => Some (fold_left add t x) end.
(* dot_product: lhs.iter().zip(rhs).map(|(l, r)| l.clone() * r.clone()).reduce(|a, p| a + p) *)
Definition dot (ls : list L) (rs : list R) : option U := reduce (map (fun p => mul (fst p) (snd p)) (combine ls rs)).
(* get_nth_major_axis_vector: data[n*stride .. n*stride + stride] *)
Definition vec {A} (K n : nat) (l : list A) : list A := firstn K (skipn (n * K) l).
Definition unwrap (o : option U) : U := match o with Some u => u | None => du end.   (* unwrap_unchecked: None is UB, see dot_some *)

Definition multiply_rows (n K m : nat) (lhs : list L) (rhs : list R) : list U :=
  concat (map (fun r => map (fun c => unwrap (dot (vec K r lhs) (vec K c rhs))) (seq 0 m)) (seq 0 n)).

Lemma nth_firstn_lt {A} (d : A) n : forall (l : list A) i, i < n -> nth i (firstn n l) d = nth i l d.
Proof. induction n as [|n IH]; intros l i Hi; [lia|]. destruct l; cbn; [now destruct i|]. destruct i; [reflexivity|]. apply IH. lia. Qed.

Lemma nth_map_seq {A} (d : A) (f : nat -> A) : forall K s i, i < K -> nth i (map f (seq s K)) d = f (s + i).
Proof. induction K as [|K IH]; intros s i Hi; [lia|]. cbn. destruct i; [now rewrite Nat.add_0_r|]. rewrite IH by lia. f_equal. lia. Qed.

Lemma vec_spec {A} (d : A) K n (l : list A) M : length l = M * K -> n < M ->
  vec K n l = map (fun k => nth (n * K + k) l d) (seq 0 K).
Proof.
  intros Hl Hn. unfold vec.
  apply nth_ext with (d := d) (d' := d).
  - rewrite firstn_length, skipn_length, map_length, seq_length. nia.
  - intros i Hi. rewrite firstn_length, skipn_length in Hi.
    assert (i < K) by lia.
    rewrite nth_firstn_lt by lia. rewrite (nth_skipn A d).
    rewrite nth_map_seq by lia. reflexivity.
Qed.

Lemma combine_map_seq {A B} (f : nat -> A) (g : nat -> B) s n :
  combine (map f (seq s n)) (map g (seq s n)) = map (fun k => (f k, g k)) (seq s n).
Proof. revert s; induction n as [|n IH]; intros s; cbn; [reflexivity|]. f_equal. apply IH. Qed.

(* the unwrap_unchecked site: with K > 0 the dot product is Some *)
Lemma dot_some n c K M N lhs rhs : 0 < K -> length lhs = M * K -> length rhs = N * K -> n < M -> c < N ->
  dot (vec K n lhs) (vec K c rhs) =
  Some (fold_left add (map (fun k => mul (nth (n * K + k) lhs dl) (nth (c * K + k) rhs dr)) (seq 1 (K - 1)))
                      (mul (nth (n * K) lhs dl) (nth (c * K) rhs dr))).
Proof.
  intros HK Hl Hr Hn Hc. unfold dot.
  rewrite (vec_spec dl K n lhs M Hl Hn), (vec_spec dr K c rhs N Hr Hc), combine_map_seq, map_map.
  destruct K as [|K]; [lia|]. cbn [seq map reduce fst snd]. rewrite !Nat.add_0_r.
  replace (S K - 1) with K by lia. reflexivity.
Qed.

Theorem multiply_textbook n K m lhs rhs r c : 0 < K -> length lhs = n * K -> length rhs = m * K -> r < n -> c < m ->
  nth (r * m + c) (multiply_rows n K m lhs rhs) du =
  fold_left add (map (fun k => mul (nth (r * K + k) lhs dl) (nth (c * K + k) rhs dr)) (seq 1 (K - 1)))
                (mul (nth (r * K) lhs dl) (nth (c * K) rhs dr))
  /\ length (multiply_rows n K m lhs rhs) = n * m.
Proof.
  intros HK Hl Hr Hrn Hcm. unfold multiply_rows. split.
  - rewrite (nth_flat U du (fun r c => unwrap (dot (vec K r lhs) (vec K c rhs))) n m r c Hrn Hcm).
    rewrite (dot_some r c K n m lhs rhs HK Hl Hr Hrn Hcm). reflexivity.
  - apply length_flat.
Qed.
End Mul.
Print Assumptions multiply_textbook.
