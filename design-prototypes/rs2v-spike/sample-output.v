Definition Order_switch (md : mode) (self : Order) : res (Order * Order) :=
  let* v1 := (match self with | RowMajor => Val ColMajor | ColMajor => Val RowMajor end) in
  let self := v1 in
  Val (self, self).

Definition Shape_size (md : mode) (self : Shape) : res (result Z) :=
  Val (ok_or (checked_mul (f_Shape_nrows self) (f_Shape_ncols self)) SizeOverflow).

Definition Shape_to_axis_shape_unchecked (md : mode) (self : Shape) (order : Order) : res AxisShape :=
  let* v4 := (match order with | RowMajor => Val ((f_Shape_nrows self), (f_Shape_ncols self)) | ColMajor => Val ((f_Shape_ncols self), (f_Shape_nrows self)) end) in
  let '(major, minor) := v4 in
  Val (Build_AxisShape major minor).

Definition Shape_try_to_axis_shape (md : mode) (self : Shape) (order : Order) : res (result AxisShape) :=
  let* r5 := Shape_size md self in
  match r5 with
  | Ok _ => let* r6 := Shape_to_axis_shape_unchecked md self order in
  Val (Ok r6)
  | Err e7 => Val (Err e7) end.

Definition AxisShape_major (md : mode) (self : AxisShape) : res Z :=
  Val (f_AxisShape_major self).

Definition AxisShape_minor (md : mode) (self : AxisShape) : res Z :=
  Val (f_AxisShape_minor self).

Definition AxisShape_major_stride (md : mode) (self : AxisShape) : res Z :=
  Val (f_AxisShape_minor self).

Definition AxisShape_minor_stride (md : mode) (self : AxisShape) : res Z :=
  Val 1.

Definition AxisShape_size (md : mode) (self : AxisShape) : res Z :=
  let* t8 := umul md (f_AxisShape_major self) (f_AxisShape_minor self) in
  Val t8.

Definition AxisShape_transpose (md : mode) (self : AxisShape) : res (AxisShape * AxisShape) :=
  let '(t_0, t_1) := ((f_AxisShape_minor self), (f_AxisShape_major self)) in
  let self := set_AxisShape_major self t_0 in
  let self := set_AxisShape_minor self t_1 in
  Val (self, self).

Definition AxisIndex_swap (md : mode) (self : AxisIndex) : res (AxisIndex * AxisIndex) :=
  let '(t_0, t_1) := ((f_AxisIndex_minor self), (f_AxisIndex_major self)) in
  let self := set_AxisIndex_major self t_0 in
  let self := set_AxisIndex_minor self t_1 in
  Val (self, self).

Definition AxisIndex_from_flattened (md : mode) (index : Z) (shape : AxisShape) : res AxisIndex :=
  let* r9 := AxisShape_major_stride md shape in
  let* t10 := udiv md index r9 in
  let major := t10 in
  let* r11 := AxisShape_major_stride md shape in
  let* t12 := urem md index r11 in
  let* r13 := AxisShape_minor_stride md shape in
  let* t14 := udiv md t12 r13 in
  let minor := t14 in
  Val (Build_AxisIndex major minor).

Definition AxisIndex_to_flattened (md : mode) (self : AxisIndex) (shape : AxisShape) : res Z :=
  let* r15 := AxisShape_major_stride md shape in
  let* t16 := umul md (f_AxisIndex_major self) r15 in
  let* r17 := AxisShape_minor_stride md shape in
  let* t18 := umul md (f_AxisIndex_minor self) r17 in
  let* t19 := uadd md t16 t18 in
  Val t19.

Definition AxisIndex_from_wrapping_index (md : mode) (index : WrappingIndex) (order : Order) (shape : AxisShape) : res AxisIndex :=
  let* v20 := (match order with | RowMajor => Val ((f_WrappingIndex_row index), (f_WrappingIndex_col index)) | ColMajor => Val ((f_WrappingIndex_col index), (f_WrappingIndex_row index)) end) in
  let '(major, minor) := v20 in
  let* v21 := (if (major <? 0) then let* r22 := AxisShape_major md shape in
  (*UNRESOLVED _.unsigned_abs*) let* r24 := AxisShape_major md shape in
  let* t25 := urem md r23 r24 in
  let* t26 := usub md r22 t25 in
  let* r27 := AxisShape_major md shape in
  let* t28 := urem md t26 r27 in
  Val t28
    else let* r29 := AxisShape_major md shape in
  let* t30 := urem md (cast_usize major) r29 in
  Val t30) in
  let major := v21 in
  let* v31 := (if (minor <? 0) then let* r32 := AxisShape_minor md shape in
  (*UNRESOLVED _.unsigned_abs*) let* r34 := AxisShape_minor md shape in
  let* t35 := urem md r33 r34 in
  let* t36 := usub md r32 t35 in
  let* r37 := AxisShape_minor md shape in
  let* t38 := urem md t36 r37 in
  Val t38
    else let* r39 := AxisShape_minor md shape in
  let* t40 := urem md (cast_usize minor) r39 in
  Val t40) in
  let minor := v31 in
  Val (Build_AxisIndex major minor).

Definition AxisIndex_to_index (md : mode) (self : AxisIndex) (order : Order) : res Index :=
  let* v41 := (match order with | RowMajor => Val ((f_AxisIndex_major self), (f_AxisIndex_minor self)) | ColMajor => Val ((f_AxisIndex_minor self), (f_AxisIndex_major self)) end) in
  let '(row, col) := v41 in
  Val (Build_Index row col).

(* missing Matrix::size_ *)
Definition Matrix_check_size (md : mode) (size : Z) : res (result Z) :=
  let* r43 := size_of_<T> md  in
  (*UNRESOLVED _.saturating_mul*) let* v42 := (if (r44 >? (cast_usize isize::MAX)) then Val (Err CapacityOverflow)
    else Val (Ok size)) in
  Val v42.

Definition Matrix_reshape (md : mode) (self : Matrix) (shape : S) : res (Matrix * (result Matrix)) :=
  (*UNRESOLVED _.try_to_axis_shape*) match r46 with
  | Ok shape => let* r47 := Matrix_size md self in
  (*UNRESOLVED _.size*) if (negb (r47 =? r48)) then Val (self, (Err SizeMismatch))
  else let self := set_Matrix_shape self shape in
  Val (self, (Ok self))
  | _ => Val (self, (Err SizeMismatch)) end.

