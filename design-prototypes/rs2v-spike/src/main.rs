// Throw-away spike: translate a handful of straight-line matreex functions to Gallina.
use quote::ToTokens;
use std::collections::HashMap;
use syn::*;

#[derive(Clone, Debug, PartialEq)]
enum Ty { Usize, Isize, Bool, Unit, Named(String), Opt(Box<Ty>), Res(Box<Ty>), Tup(Vec<Ty>), Unknown }

struct FnInfo { owner: String, name: String, sig: Signature, block: Block }
#[derive(Default)]
struct Ctx { structs: HashMap<String, Vec<(String, Ty)>>, enums: HashMap<String, Vec<String>>, fns: HashMap<(String, String), FnInfo>, tmp: usize }

fn tstr<T: ToTokens>(t: &T) -> String { t.to_token_stream().to_string().replace(' ', "") }

fn conv_ty(t: &Type, owner: &str) -> Ty {
    match t {
        Type::Reference(r) => conv_ty(&r.elem, owner),
        Type::Tuple(tt) if tt.elems.is_empty() => Ty::Unit,
        Type::Tuple(tt) => Ty::Tup(tt.elems.iter().map(|e| conv_ty(e, owner)).collect()),
        Type::Path(p) => {
            let seg = p.path.segments.last().unwrap(); let id = seg.ident.to_string();
            let arg0 = || -> Ty { if let PathArguments::AngleBracketed(a) = &seg.arguments { if let Some(GenericArgument::Type(t)) = a.args.first() { return conv_ty(t, owner); } } Ty::Unknown };
            match id.as_str() { "usize" => Ty::Usize, "isize" => Ty::Isize, "bool" => Ty::Bool, "Self" => Ty::Named(owner.into()), "Option" => Ty::Opt(Box::new(arg0())), "Result" => Ty::Res(Box::new(arg0())), "Matrix" => Ty::Named("Matrix".into()), _ => Ty::Named(id) }
        }
        _ => Ty::Unknown,
    }
}
fn coq_ty(t: &Ty) -> String { match t { Ty::Usize | Ty::Isize => "Z".into(), Ty::Bool => "bool".into(), Ty::Unit => "unit".into(), Ty::Named(n) => n.clone(), Ty::Opt(a) => format!("(option {})", coq_ty(a)), Ty::Res(a) => format!("(result {})", coq_ty(a)), Ty::Tup(v) => format!("({})", v.iter().map(coq_ty).collect::<Vec<_>>().join(" * ")), Ty::Unknown => "_".into() } }

type Env = HashMap<String, Ty>;
struct Tr<'a> { cx: &'a mut Ctx, owner: String, ret: Ty, self_mut: bool }

impl<'a> Tr<'a> {
    fn fresh(&mut self, base: &str) -> String { self.cx.tmp += 1; format!("{}{}", base, self.cx.tmp) }
    fn ret_of(&self, owner: &str, name: &str) -> Option<Ty> { self.cx.fns.get(&(owner.to_string(), name.to_string())).map(|f| match &f.sig.output { ReturnType::Default => Ty::Unit, ReturnType::Type(_, t) => conv_ty(t, owner) }) }
    fn ty_of(&self, e: &Expr, env: &Env) -> Ty {
        match e {
            Expr::Path(p) => { let n = tstr(p); if n == "self" { Ty::Named(self.owner.clone()) } else { env.get(&n).cloned().unwrap_or(Ty::Unknown) } }
            Expr::Field(f) => { if let Ty::Named(s) = self.ty_of(&f.base, env) { if let Member::Named(id) = &f.member { if let Some(fs) = self.cx.structs.get(&s) { for (n, t) in fs { if n == &id.to_string() { return t.clone(); } } } } } Ty::Unknown }
            Expr::MethodCall(m) => { let name = m.method.to_string(); match self.ty_of(&m.receiver, env) {
                Ty::Named(s) => self.ret_of(&s, &name).unwrap_or(Ty::Unknown),
                Ty::Usize if name == "checked_mul" => Ty::Opt(Box::new(Ty::Usize)), Ty::Usize => Ty::Usize, Ty::Isize if name == "unsigned_abs" => Ty::Usize,
                Ty::Opt(a) if name == "ok_or" => Ty::Res(a), _ => Ty::Unknown } }
            Expr::Call(c) => { let p = tstr(&c.func); if let Some((o, n)) = p.split_once("::") { let o = if o == "Self" { self.owner.clone() } else { o.to_string() }; self.ret_of(&o, n).unwrap_or(Ty::Unknown) } else { Ty::Unknown } }
            Expr::Paren(p) => self.ty_of(&p.expr, env), Expr::Reference(r) => self.ty_of(&r.expr, env), Expr::Cast(c) => conv_ty(&c.ty, &self.owner),
            Expr::Unary(u) => self.ty_of(&u.expr, env), Expr::Binary(b) => match b.op { BinOp::Lt(_)|BinOp::Le(_)|BinOp::Gt(_)|BinOp::Ge(_)|BinOp::Eq(_)|BinOp::Ne(_)|BinOp::Or(_)|BinOp::And(_) => Ty::Bool, _ => self.ty_of(&b.left, env) },
            Expr::Lit(_) => Ty::Usize, _ => Ty::Unknown,
        }
    }
    fn bind_pat(&self, p: &Pat, ty: &Ty, env: &mut Env) -> String {
        match p {
            Pat::Ident(i) => { env.insert(i.ident.to_string(), ty.clone()); i.ident.to_string() }
            Pat::Tuple(t) => { let tys: Vec<Ty> = if let Ty::Tup(v) = ty { v.clone() } else { vec![Ty::Unknown; t.elems.len()] }; format!("'({})", t.elems.iter().zip(tys).map(|(p, t)| self.bind_pat(p, &t, env).trim_start_matches('\'').to_string()).collect::<Vec<_>>().join(", ")) }
            Pat::Type(t) => self.bind_pat(&t.pat, ty, env), Pat::Wild(_) => "_".into(), _ => format!("(*PAT {}*)", tstr(p)),
        }
    }
    // final value of the function
    fn finish(&self, v: String) -> String { if self.self_mut { format!("Val (self, {})", v) } else { format!("Val {}", v) } }
    fn early(&self, v: String) -> String { self.finish(v) }

    fn block(&mut self, stmts: &[Stmt], env: &mut Env, k: &mut dyn FnMut(&mut Self, String, &mut Env) -> String) -> String {
        if stmts.is_empty() { return k(self, "tt".into(), env); }
        let (s, rest) = stmts.split_first().unwrap();
        match s {
            Stmt::Local(l) => {
                let init = l.init.as_ref().expect("let without init");
                if let Some((_, div)) = &init.diverge { // let PAT = e else { return X }
                    let Pat::TupleStruct(ts) = &l.pat else { panic!("let-else pattern") }; let ctor = tstr(&ts.path); let var = tstr(&ts.elems[0]);
                    let inner_ty = match self.ty_of(&init.expr, env) { Ty::Res(a) | Ty::Opt(a) => *a, _ => Ty::Unknown };
                    let Expr::Block(b) = &**div else { panic!("else block") };
                    return self.expr(&init.expr, env, &mut |me, v, env| { let mut e2 = env.clone(); e2.insert(var.clone(), inner_ty.clone());
                        let ok = me.block(rest, &mut e2, k); let bad = me.block(&b.block.stmts, &mut env.clone(), &mut |_, v, _| v);
                        format!("match {} with\n  | {} {} => {}\n  | _ => {} end", v, ctor, var, ok, bad) });
                }
                if let Expr::Try(t) = &*init.expr { return self.try_(&t.expr, Some(&l.pat), rest, env, k); }
                let ty = self.ty_of(&init.expr, env);
                self.expr(&init.expr, env, &mut |me, v, env| { let p = me.bind_pat(&l.pat, &ty, env); format!("let {} := {} in\n  {}", p, v, me.block(rest, env, k)) })
            }
            Stmt::Expr(e, semi) => {
                if semi.is_none() && rest.is_empty() { return self.expr(e, env, k); }
                match e {
                    Expr::Try(t) => self.try_(&t.expr, None, rest, env, k),
                    Expr::Return(r) => self.expr(r.expr.as_ref().unwrap(), env, &mut |me, v, _| me.early(v)),
                    Expr::If(i) if i.else_branch.is_none() => { // guard form
                        self.expr(&i.cond, env, &mut |me, c, env| { let th = me.block(&i.then_branch.stmts, &mut env.clone(), &mut |_, v, _| v); let el = me.block(rest, env, k); format!("if {} then {}\n  else {}", c, th, el) })
                    }
                    Expr::Assign(a) => self.assign(a, rest, env, k),
                    _ => self.expr(e, env, &mut |me, _v, env| me.block(rest, env, k)),
                }
            }
            _ => format!("(*STMT {}*)", tstr(s)),
        }
    }
    fn try_(&mut self, inner: &Expr, pat: Option<&Pat>, rest: &[Stmt], env: &mut Env, k: &mut dyn FnMut(&mut Self, String, &mut Env) -> String) -> String {
        let ity = self.ty_of(inner, env); let is_opt = matches!(ity, Ty::Opt(_)); let vt = match ity { Ty::Res(a) | Ty::Opt(a) => *a, _ => Ty::Unknown };
        self.expr(inner, env, &mut |me, v, env| { let x = match pat { Some(p) => me.bind_pat(p, &vt, env), None => "_".into() }; let r = me.block(rest, env, k);
            if is_opt { format!("match {} with\n  | Some {} => {}\n  | None => {} end", v, x, r, me.early("None".into())) } else { let e = me.fresh("e"); format!("match {} with\n  | Ok {} => {}\n  | Err {} => {} end", v, x, r, e.clone(), me.early(format!("(Err {})", e))) } })
    }
    fn assign(&mut self, a: &ExprAssign, rest: &[Stmt], env: &mut Env, k: &mut dyn FnMut(&mut Self, String, &mut Env) -> String) -> String {
        // self.f = e | (self.a, self.b) = (..) | *self = e
        let lhs: Vec<String> = match &*a.left { Expr::Tuple(t) => t.elems.iter().map(tstr).collect(), l => vec![tstr(l)] };
        let owner = self.owner.clone();
        self.expr(&a.right, env, &mut |me, v, env| {
            let mut out = String::new();
            if lhs.len() == 1 && lhs[0] == "*self" { out += &format!("let self := {} in\n  ", v); }
            else if lhs.len() == 1 { let f = lhs[0].trim_start_matches("self."); out += &format!("let self := set_{}_{} self {} in\n  ", owner, f, v); }
            else { let names: Vec<String> = (0..lhs.len()).map(|i| format!("t_{}", i)).collect(); out += &format!("let '({}) := {} in\n  ", names.join(", "), v); for (l, n) in lhs.iter().zip(&names) { out += &format!("let self := set_{}_{} self {} in\n  ", owner, l.trim_start_matches("self."), n); } }
            out + &me.block(rest, env, k) })
    }
    fn sub(&mut self, e: &Expr, env: &Env) -> String { let mut env2 = env.clone(); self.expr(e, &mut env2, &mut |_, v, _| format!("Val {}", v)) }
    fn expr(&mut self, e: &Expr, env: &mut Env, k: &mut dyn FnMut(&mut Self, String, &mut Env) -> String) -> String {
        match e {
            Expr::Lit(l) => k(self, tstr(l).trim_end_matches("usize").to_string(), env),
            Expr::Path(p) => { let n = tstr(p); let n = match n.as_str() { "Order::RowMajor" => "RowMajor".into(), "Order::ColMajor" => "ColMajor".into(), s if s.starts_with("Error::") => s[7..].to_string(), "Self::RowMajor" => "RowMajor".into(), "Self::ColMajor" => "ColMajor".into(), _ => n }; k(self, n, env) }
            Expr::Paren(p) => self.expr(&p.expr, env, k), Expr::Reference(r) => self.expr(&r.expr, env, k), Expr::Unsafe(u) => self.block(&u.block.stmts, env, k), Expr::Block(b) => self.block(&b.block.stmts, env, k),
            Expr::Unary(u) if matches!(u.op, UnOp::Deref(_)) => self.expr(&u.expr, env, k),
            Expr::Field(f) => { let bt = self.ty_of(&f.base, env); let s = if let Ty::Named(s) = bt { s } else { "UNK".into() }; let m = tstr(&f.member); self.expr(&f.base, env, &mut |me, b, env| k(me, format!("(f_{}_{} {})", s, m, b), env)) }
            Expr::Cast(c) => self.expr(&c.expr, env, &mut |me, v, env| k(me, format!("(cast_{} {})", tstr(&c.ty), v), env)),
            Expr::Tuple(t) => self.exprs(&t.elems.iter().collect::<Vec<_>>(), env, &mut |me, vs, env| k(me, format!("({})", vs.join(", ")), env)),
            Expr::Struct(s) => { let name = { let n = tstr(&s.path); if n == "Self" { self.owner.clone() } else { n } }; let fs: Vec<&Expr> = s.fields.iter().map(|f| &f.expr).collect(); self.exprs(&fs, env, &mut |me, vs, env| k(me, format!("(Build_{} {})", name, vs.join(" ")), env)) }
            Expr::Binary(b) => {
                let lt = self.ty_of(&b.left, env);
                match b.op {
                    BinOp::Or(_) | BinOp::And(_) => { let is_or = matches!(b.op, BinOp::Or(_)); let t = self.fresh("b");
                        self.expr(&b.left, env, &mut |me, l, env| { let r = me.sub(&b.right, env); let body = if is_or { format!("if {} then Val true else {}", l, r) } else { format!("if {} then {} else Val false", l, r) }; format!("let* {} := ({}) in\n  {}", t, body, k(me, t.clone(), env)) }) }
                    _ => self.expr(&b.left, env, &mut |me, l, env| me.expr(&b.right, env, &mut |me, r, env| {
                        let pure = |op: &str| format!("({} {} {})", l, op, r);
                        match b.op { BinOp::Lt(_) => k(me, pure("<?"), env), BinOp::Le(_) => k(me, pure("<=?"), env), BinOp::Gt(_) => k(me, pure(">?"), env), BinOp::Ge(_) => k(me, pure(">=?"), env),
                            BinOp::Eq(_) | BinOp::Ne(_) => { let eq = match &lt { Ty::Named(s) => format!("({}_eqb {} {})", s, l, r), _ => pure("=?") }; k(me, if matches!(b.op, BinOp::Ne(_)) { format!("(negb {})", eq) } else { eq }, env) }
                            _ => { let f = match b.op { BinOp::Add(_) => "uadd", BinOp::Sub(_) => "usub", BinOp::Mul(_) => "umul", BinOp::Div(_) => "udiv", BinOp::Rem(_) => "urem", _ => "UNKOP" }; let t = me.fresh("t"); format!("let* {} := {} md {} {} in\n  {}", t, f, l, r, k(me, t.clone(), env)) } } })),
                }
            }
            Expr::If(i) => { let t = self.fresh("v"); self.expr(&i.cond, env, &mut |me, c, env| { let th = me.block(&i.then_branch.stmts, &mut env.clone(), &mut |_, v, _| format!("Val {}", v)); let el = match &i.else_branch { Some((_, e)) => me.sub(e, env), None => "Val tt".into() }; format!("let* {} := (if {} then {}\n    else {}) in\n  {}", t, c, th, el, k(me, t.clone(), env)) }) }
            Expr::Match(m) => { let t = self.fresh("v"); self.expr(&m.expr, env, &mut |me, s, env| { let arms: Vec<String> = m.arms.iter().map(|a| { let p = tstr(&a.pat); let p = p.rsplit("::").next().unwrap().to_string(); format!("| {} => {}", p, me.sub(&a.body, env)) }).collect(); format!("let* {} := (match {} with {} end) in\n  {}", t, s, arms.join(" "), k(me, t.clone(), env)) }) }
            Expr::Call(c) => { let p = tstr(&c.func); let args: Vec<&Expr> = c.args.iter().collect();
                self.exprs(&args, env, &mut |me, vs, env| match p.as_str() { "Ok" | "Err" | "Some" => k(me, format!("({} {})", p, vs.join(" ")), env),
                    _ => { let (o, n) = p.split_once("::").unwrap_or(("", &p)); let o = if o == "Self" { me.owner.clone() } else { o.split('<').next().unwrap().to_string() }; let t = me.fresh("r"); format!("let* {} := {}_{} md {} in\n  {}", t, o, n, vs.join(" "), k(me, t.clone(), env)) } }) }
            Expr::MethodCall(m) => { let rt = self.ty_of(&m.receiver, env); let name = m.method.to_string(); let mut all: Vec<&Expr> = vec![&m.receiver]; all.extend(m.args.iter());
                self.exprs(&all, env, &mut |me, vs, env| { let t = me.fresh("r"); match (&rt, name.as_str()) {
                    (Ty::Usize, "checked_mul") => k(me, format!("(checked_mul {} {})", vs[0], vs[1]), env), (Ty::Usize, "saturating_mul") => k(me, format!("(saturating_mul {} {})", vs[0], vs[1]), env),
                    (Ty::Isize, "unsigned_abs") => k(me, format!("(unsigned_abs {})", vs[0]), env), (Ty::Opt(_), "ok_or") => k(me, format!("(ok_or {} {})", vs[0], vs[1]), env), (_, "into") => k(me, vs[0].clone(), env),
                    (Ty::Named(s), _) => format!("let* {} := {}_{} md {} in\n  {}", t, s, name, vs.join(" "), k(me, t.clone(), env)),
                    _ => format!("(*UNRESOLVED {}.{}*) {}", coq_ty(&rt), name, k(me, t.clone(), env)) } }) }
            _ => format!("(*EXPR {}*)", tstr(e)),
        }
    }
    fn exprs(&mut self, es: &[&Expr], env: &mut Env, k: &mut dyn FnMut(&mut Self, Vec<String>, &mut Env) -> String) -> String { self.exprs_go(es, vec![], env, k) }
    fn exprs_go(&mut self, es: &[&Expr], acc: Vec<String>, env: &mut Env, k: &mut dyn FnMut(&mut Self, Vec<String>, &mut Env) -> String) -> String {
        if es.is_empty() { return k(self, acc, env); }
        self.expr(es[0], env, &mut |me, v, env| { let mut a = acc.clone(); a.push(v); me.exprs_go(&es[1..], a, env, k) })
    }
}

fn main() {
    let mut cx = Ctx::default();
    for p in std::env::args().skip(1) {
        let file = parse_file(&std::fs::read_to_string(&p).unwrap()).unwrap();
        for it in file.items { match it {
            Item::Struct(s) => { let fs = s.fields.iter().filter_map(|f| f.ident.as_ref().map(|i| (i.to_string(), conv_ty(&f.ty, &s.ident.to_string())))).collect(); cx.structs.insert(s.ident.to_string(), fs); }
            Item::Enum(e) => { cx.enums.insert(e.ident.to_string(), e.variants.iter().map(|v| v.ident.to_string()).collect()); }
            Item::Impl(i) if i.trait_.is_none() => { let owner = tstr(&i.self_ty).split('<').next().unwrap().to_string(); for ii in i.items { if let ImplItem::Fn(f) = ii { cx.fns.insert((owner.clone(), f.sig.ident.to_string()), FnInfo { owner: owner.clone(), name: f.sig.ident.to_string(), sig: f.sig, block: f.block }); } } }
            _ => {} } }
    }
    let targets = [("Order","switch"),("Shape","size"),("Shape","to_axis_shape_unchecked"),("Shape","try_to_axis_shape"),("AxisShape","major"),("AxisShape","minor"),("AxisShape","major_stride"),("AxisShape","minor_stride"),("AxisShape","size"),("AxisShape","transpose"),
        ("AxisIndex","swap"),("AxisIndex","from_flattened"),("AxisIndex","to_flattened"),("AxisIndex","from_wrapping_index"),("AxisIndex","to_index"),("Matrix","size_"),("Matrix","check_size"),("Matrix","reshape")];
    for (o, n) in targets {
        let Some(f) = cx.fns.get(&(o.to_string(), n.to_string())) else { println!("(* missing {}::{} *)", o, n); continue };
        let sig = f.sig.clone(); let block = f.block.clone();
        let mut env = Env::new(); let mut params = vec![]; let mut self_mut = false; let mut has_self = false;
        for a in &sig.inputs { match a { FnArg::Receiver(r) => { has_self = true; self_mut = r.mutability.is_some() && r.reference.is_some(); params.push(format!("(self : {})", o)); }
            FnArg::Typed(t) => { let ty = conv_ty(&t.ty, o); let n = tstr(&t.pat).replace("mut", ""); env.insert(n.clone(), ty.clone()); params.push(format!("({} : {})", n, coq_ty(&ty))); } } }
        let _ = has_self;
        let ret = match &sig.output { ReturnType::Default => Ty::Unit, ReturnType::Type(_, t) => conv_ty(t, o) };
        let mut tr = Tr { cx: &mut cx, owner: o.to_string(), ret: ret.clone(), self_mut };
        let body = tr.block(&block.stmts, &mut env, &mut |me, v, _| me.finish(v));
        let _ = &tr.ret;
        let rty = if self_mut { format!("({} * {})", o, coq_ty(&ret)) } else { coq_ty(&ret) };
        println!("Definition {}_{} (md : mode) {} : res {} :=\n  {}.\n", o, n, params.join(" "), rty, body);
    }
}
