From Coq Require Import ZArith List Lia Bool.
Import ListNotations.
Open Scope Z_scope.

Inductive res (A : Type) := Val (a : A) | Panic (why : Z) | UB (why : Z).
Arguments Val {A} a. Arguments Panic {A} why. Arguments UB {A} why.
Definition bind {A B} (x : res A) (k : A -> res B) : res B :=
  match x with Val a => k a | Panic w => Panic w | UB w => UB w end.
Notation "'let*' x ':=' e 'in' k" := (bind e (fun x => k)) (at level 200, x pattern, e at level 100, k at level 200).

Section IT.
Variables UMAX IMAX : Z.
Hypothesis HI : IMAX >= 32767.
Hypothesis HU : UMAX = 2 * IMAX + 1.
Variable es : Z.        (* size_of::<T>() > 0 in this prototype *)
Hypothesis Hes : 0 < es.
Variables base bytes : Z.   (* the allocation *)

Record ptr := { addr : Z }.
(* NonNull::add / sub: UB when leaving [base, base+bytes] *)
Definition padd (p : ptr) (n : Z) : res ptr :=
  let a := addr p + n * es in if (base <=? a) && (a <=? base + bytes) then Val {| addr := a |} else UB 1.
Definition psub (p : ptr) (n : Z) : res ptr :=
  let a := addr p - n * es in if (base <=? a) && (a <=? base + bytes) then Val {| addr := a |} else UB 2.
Definition usub (a b : Z) : res Z := if b <=? a then Val (a - b) else Panic 2.
Definition umul (a b : Z) : res Z := if a * b <=? UMAX then Val (a * b) else Panic 3.
Definition udiv (a b : Z) : res Z := if b =? 0 then Panic 5 else Val (a / b).
Definition uadd (a b : Z) : res Z := if a + b <=? UMAX then Val (a + b) else Panic 1.

(* as rs2v would emit iter_mut.rs:234-421 for size_of::<T>() != 0 *)
Record IterNth := { lower : ptr; upper : ptr; stride : option Z }.

Definition assemble (lo : ptr) (st len : Z) : res IterNth :=
  let* t := usub len 1 in
  let* offset := umul t st in
  let* up := padd lo offset in
  Val {| lower := lo; upper := up; stride := Some st |}.

Definition next (self : IterNth) : res (IterNth * option Z) :=
  match stride self with
  | None => Val (self, None)
  | Some st =>
      let result := addr (lower self) in            (* self.lower.as_mut() *)
      if addr (lower self) =? addr (upper self) then Val ({| lower := lower self; upper := upper self; stride := None |}, Some result)
      else let* lo := padd (lower self) st in Val ({| lower := lo; upper := upper self; stride := Some st |}, Some result)
  end.

Definition next_back (self : IterNth) : res (IterNth * option Z) :=
  match stride self with
  | None => Val (self, None)
  | Some st =>
      let result := addr (upper self) in
      if addr (lower self) =? addr (upper self) then Val ({| lower := lower self; upper := upper self; stride := None |}, Some result)
      else let* up := psub (upper self) st in Val ({| lower := lower self; upper := up; stride := Some st |}, Some result)
  end.

Definition len (self : IterNth) : res Z :=
  match stride self with
  | None => Val 0
  | Some st =>
      let* d := usub (addr (upper self)) (addr (lower self)) in
      let* m := umul st es in
      let* q := udiv d m in
      uadd 1 q
  end.

(* ghost: the iterator stands for positions a..b (inclusive) of a vector starting at element index v0 with stride st, or nothing *)
Inductive ghost := Gempty | Grange (a b : Z).
Variables v0 st n : Z.          (* first element index of the vector, stride, length *)
Hypothesis Hst : 0 < st.
Hypothesis Hn : 0 < n.
Hypothesis Hv0 : 0 <= v0.
Variable cnt : Z.               (* number of elements in the buffer *)
Hypothesis Hbytes : bytes = cnt * es.
Hypothesis Hfit : v0 + (n - 1) * st < cnt.
Hypothesis Hstc : st <= cnt.
Hypothesis Hbase : 0 < base /\ base + bytes <= UMAX.
Hypothesis Hvec : bytes <= IMAX.

Definition at_ (j : Z) : Z := base + (v0 + j * st) * es.
Definition R (g : ghost) (s : IterNth) : Prop :=
  match g with
  | Gempty => stride s = None
  | Grange a b => 0 <= a <= b /\ b < n /\ stride s = Some st /\ addr (lower s) = at_ a /\ addr (upper s) = at_ b
  end.
Definition remaining (g : ghost) : Z := match g with Gempty => 0 | Grange a b => b - a + 1 end.

Lemma at_inj j k : at_ j = at_ k -> j = k.
Proof. unfold at_. intros H. assert (E: (v0 + j * st) * es = (v0 + k * st) * es) by lia.
  apply Z.mul_reg_r in E; [|lia]. assert (E2: j * st = k * st) by lia. apply Z.mul_reg_r in E2; lia. Qed.

Lemma at_in j : 0 <= j < n -> base <= at_ j /\ at_ j + es <= base + bytes.
Proof. unfold at_. intros Hj. subst bytes.
  assert (Hidx: 0 <= v0 + j * st < cnt).
  { split; [nia|]. assert (j * st <= (n - 1) * st) by (apply Z.mul_le_mono_nonneg_r; lia). lia. }
  remember (v0 + j * st) as idx. clear Heqidx.
  assert (0 <= idx * es) by nia.
  assert ((idx + 1) * es <= cnt * es) by (apply Z.mul_le_mono_nonneg_r; lia).
  lia. Qed.

Lemma assemble_ok : exists s, assemble {| addr := at_ 0 |} st n = Val s /\ R (Grange 0 (n - 1)) s.
Proof.
  unfold assemble, usub, umul, padd, bind. 
  assert (1 <=? n = true) as -> by lia.
  assert ((n - 1) * st <=? UMAX = true) as ->.
  { apply Z.leb_le. assert ((n-1)*st < cnt) by nia. assert (cnt <= bytes) by (subst bytes; nia). lia. }
  cbn [addr]. pose proof (at_in (n-1) ltac:(lia)) as [H1 H2].
  replace (at_ 0 + (n - 1) * st * es) with (at_ (n-1)) by (unfold at_; ring).
  assert ((base <=? at_ (n-1)) && (at_ (n-1) <=? base + bytes) = true) as -> by lia.
  eexists; split; [reflexivity|]. cbn. repeat split; try lia. 
Qed.

Lemma next_ok g s : R g s ->
  match g with
  | Gempty => next s = Val (s, None)
  | Grange a b => exists s', next s = Val (s', Some (at_ a)) /\ R (if a =? b then Gempty else Grange (a + 1) b) s'
  end.
Proof.
  destruct g as [|a b]; cbn [R]; intros H.
  - unfold next. now rewrite H.
  - destruct H as (Hab & Hb & Hs & Hl & Hu). unfold next. rewrite Hs, Hl, Hu.
    destruct (a =? b) eqn:E.
    + assert (a = b) by lia; subst b. rewrite Z.eqb_refl. eexists; split; [reflexivity|]. reflexivity.
    + assert (at_ a =? at_ b = false) as -> by (apply Z.eqb_neq; intros X; apply at_inj in X; lia).
      unfold padd, bind. rewrite Hl.
      replace (at_ a + st * es) with (at_ (a + 1)) by (unfold at_; ring).
      pose proof (at_in (a+1) ltac:(lia)) as [H1 H2].
      assert ((base <=? at_ (a+1)) && (at_ (a+1) <=? base + bytes) = true) as -> by lia.
      eexists; split; [reflexivity|]. cbn. repeat split; try lia; auto.
Qed.

Lemma next_back_ok g s : R g s ->
  match g with
  | Gempty => next_back s = Val (s, None)
  | Grange a b => exists s', next_back s = Val (s', Some (at_ b)) /\ R (if a =? b then Gempty else Grange a (b - 1)) s'
  end.
Proof.
  destruct g as [|a b]; cbn [R]; intros H.
  - unfold next_back. now rewrite H.
  - destruct H as (Hab & Hb & Hs & Hl & Hu). unfold next_back. rewrite Hs, Hl, Hu.
    destruct (a =? b) eqn:E.
    + assert (a = b) by lia; subst b. rewrite Z.eqb_refl. eexists; split; [reflexivity|]. reflexivity.
    + assert (at_ a =? at_ b = false) as -> by (apply Z.eqb_neq; intros X; apply at_inj in X; lia).
      unfold psub, bind. rewrite Hu.
      replace (at_ b - st * es) with (at_ (b - 1)) by (unfold at_; ring).
      pose proof (at_in (b-1) ltac:(lia)) as [H1 H2].
      assert ((base <=? at_ (b-1)) && (at_ (b-1) <=? base + bytes) = true) as -> by lia.
      eexists; split; [reflexivity|]. cbn. repeat split; try lia; auto.
Qed.

Lemma len_ok g s : R g s -> len s = Val (remaining g).
Proof.
  destruct g as [|a b]; cbn [R remaining]; intros H.
  - unfold len. now rewrite H.
  - destruct H as (Hab & Hb & Hs & Hl & Hu). unfold len. rewrite Hs, Hl, Hu.
    unfold usub, umul, udiv, uadd, bind.
    assert (at_ b - at_ a = (b - a) * (st * es)) as Hd by (unfold at_; ring).
    assert (Hpos : 0 < st * es) by (apply Z.mul_pos_pos; lia).
    assert (0 <= (b - a) * (st * es)) by (apply Z.mul_nonneg_nonneg; lia).
    assert (at_ a <=? at_ b = true) as -> by lia.
    assert (st * es <= bytes) by (subst bytes; apply Z.mul_le_mono_nonneg_r; lia).
    assert (st * es <=? UMAX = true) as -> by lia.
    assert (st * es =? 0 = false) as -> by lia.
    rewrite Hd, Z.div_mul by lia.
    assert (n - 1 <= (n - 1) * st) by nia.
    assert (cnt <= bytes) by (subst bytes; nia).
    assert (1 + (b - a) <=? UMAX = true) as -> by lia.
    f_equal. lia.
Qed.
End IT.
Print Assumptions len_ok.
