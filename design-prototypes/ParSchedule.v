(* Feasibility prototype (design round): C16/C17 — what "for every schedule" means in the model.
   C16: rayon's indexed-producer contract as an arbitrary binary split tree of the index range
   (each leaf processed sequentially with its global offset, results concatenated in index order).
   C17: threads updating pairwise disjoint address sets, any interleaving = sequential result. *)
From Coq Require Import List Arith Lia Permutation.
Import ListNotations.

Section C16.
Variables A B : Type.
Inductive split := Leaf | Node (at_ : nat) (l r : split).

(* data.par_iter().enumerate().map(g).collect() under schedule t; off = global position of the chunk *)
Fixpoint par_enum_map (t : split) (g : nat -> A -> B) (off : nat) (l : list A) : list B :=
  match t with
  | Leaf => map (fun p => g (fst p) (snd p)) (combine (seq off (length l)) l)
  | Node k tl tr => par_enum_map tl g off (firstn k l) ++ par_enum_map tr g (off + length (firstn k l)) (skipn k l)
  end.
Definition seq_enum_map (g : nat -> A -> B) (off : nat) (l : list A) : list B :=
  map (fun p => g (fst p) (snd p)) (combine (seq off (length l)) l).

Lemma seq_enum_map_app g off l1 l2 :
  seq_enum_map g off (l1 ++ l2) = seq_enum_map g off l1 ++ seq_enum_map g (off + length l1) l2.
Proof.
  revert off; induction l1 as [|x l1 IH]; intros off.
  - cbn. now rewrite Nat.add_0_r.
  - unfold seq_enum_map in *. cbn. f_equal. rewrite (IH (S off)).
    replace (S off + length l1) with (off + S (length l1)) by lia. reflexivity.
Qed.

Theorem par_enum_map_any_schedule t g : forall off l, par_enum_map t g off l = seq_enum_map g off l.
Proof.
  induction t as [|k tl IHl tr IHr]; intros off l; cbn; [reflexivity|].
  rewrite IHl, IHr, <- seq_enum_map_app, firstn_skipn. reflexivity.
Qed.

(* exactly-once invocation: the multiset of closure arguments does not depend on the schedule either *)
Fixpoint par_args (t : split) (off : nat) (l : list A) : list (nat * A) :=
  match t with
  | Leaf => combine (seq off (length l)) l
  | Node k tl tr => par_args tr (off + length (firstn k l)) (skipn k l) ++ par_args tl off (firstn k l)   (* right half ran first *)
  end.
Lemma combine_seq_app off (l1 l2 : list A) :
  combine (seq off (length (l1 ++ l2))) (l1 ++ l2) =
  combine (seq off (length l1)) l1 ++ combine (seq (off + length l1) (length l2)) l2.
Proof.
  revert off; induction l1 as [|x l1 IH]; intros off; cbn.
  - now rewrite Nat.add_0_r.
  - f_equal. rewrite (IH (S off)). replace (S off + length l1) with (off + S (length l1)) by lia. reflexivity.
Qed.

Theorem par_args_perm t : forall off l, Permutation (par_args t off l) (combine (seq off (length l)) l).
Proof.
  induction t as [|k tl IHl tr IHr]; intros off l; cbn; [reflexivity|].
  rewrite Permutation_app_comm, IHl, IHr.
  rewrite <- combine_seq_app, firstn_skipn. reflexivity.
Qed.
End C16.

Section C17.
(* a store of cells; each thread owns a set of addresses and applies updates only there *)
Variable V : Type.
Definition store := nat -> V.
Definition upd (s : store) (a : nat) (f : V -> V) : store := fun x => if Nat.eqb x a then f (s x) else s x.
Definition step := (nat * (V -> V))%type.
Fixpoint apply_steps (s : store) (l : list step) : store :=
  match l with [] => s | p :: l' => apply_steps (upd s (fst p) (snd p)) l' end.

(* an interleaving of two threads' step lists *)
Inductive interleave : list step -> list step -> list step -> Prop :=
| il_nil : interleave [] [] []
| il_l x l1 l2 l : interleave l1 l2 l -> interleave (x :: l1) l2 (x :: l)
| il_r x l1 l2 l : interleave l1 l2 l -> interleave l1 (x :: l2) (x :: l).

Definition disjoint (l1 l2 : list step) := forall p q, In p l1 -> In q l2 -> fst p <> fst q.

Lemma upd_comm s a f b g : a <> b -> forall x, upd (upd s a f) b g x = upd (upd s b g) a f x.
Proof. intros N x. unfold upd. destruct (Nat.eqb_spec x b), (Nat.eqb_spec x a); subst; congruence. Qed.

Lemma apply_ext l : forall s s', (forall x, s x = s' x) -> forall x, apply_steps s l x = apply_steps s' l x.
Proof. induction l as [|p l IH]; intros s s' E x; cbn; auto. apply IH. intros y. unfold upd. rewrite E. reflexivity. Qed.

(* moving one foreign step in front of a thread's whole list does not change the result *)
Lemma hoist l2 : forall s a f, (forall q, In q l2 -> a <> fst q) ->
  forall x, apply_steps (upd s a f) l2 x = upd (apply_steps s l2) a f x.
Proof.
  induction l2 as [|[b g] l2 IH]; intros s a f D x; cbn [apply_steps fst snd]; auto.
  rewrite <- IH by (intros q Hq; apply D; right; auto).
  apply apply_ext. intros y. apply upd_comm. apply (D (b, g)). left; reflexivity.
Qed.

Theorem any_interleaving_is_sequential l1 l2 l : interleave l1 l2 l -> disjoint l1 l2 ->
  forall s x, apply_steps s l x = apply_steps (apply_steps s l1) l2 x.
Proof.
  induction 1 as [|p l1 l2 l H IH|q l1 l2 l H IH]; intros D s x; cbn [apply_steps]; auto.
  - apply IH. intros p' q' Hp Hq. apply D; [right|]; auto.
  - rewrite IH by (intros p' q' Hp Hq; apply D; [|right]; auto).
    destruct q as [b g]. cbn [fst snd].
    apply apply_ext. intros y.
    apply (hoist l1 s b g (fun p' Hp => not_eq_sym (D p' (b, g) Hp (or_introl eq_refl)))).
Qed.
End C17.
Print Assumptions par_enum_map_any_schedule.
Print Assumptions par_args_perm.
Print Assumptions any_interleaving_is_sequential.
