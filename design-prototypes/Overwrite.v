(* Feasibility prototype (design round): C14.  Both paths of Matrix::overwrite (src/lib.rs:592-626)
   are "for i < I, for k < K: dst[i*md + k] := clone (src[g i k])" with g i k = i*ms + k (same order)
   or g i k = i + k*ms (different orders: skip(i).step_by(ms)).  One generic double-loop lemma gives
   the exact block-copy specification and the in-bounds facts for every pair of shapes. *)
From Coq Require Import Arith Lia List Bool.
Open Scope bool_scope.

Section DL.
Variable A : Type.
Definition upd (f : nat -> A) (i : nat) (b : A) : nat -> A := fun x => if Nat.eqb x i then b else f x.
Lemma upd_same f i b : upd f i b i = b. Proof. unfold upd. now rewrite Nat.eqb_refl. Qed.
Lemma upd_other f i b x : x <> i -> upd f i b x = f x. Proof. unfold upd. intros H. destruct (Nat.eqb_spec x i); congruence. Qed.

Variable md : nat.                       (* destination stride = dst.minor *)
Variable v : nat -> nat -> A.            (* value written at (i,k): clone of the source element *)
Variable K : nat. Hypothesis HK : K <= md.

Fixpoint inner (k : nat) (i : nat) (d : nat -> A) : nat -> A :=        (* k = number of columns done *)
  match k with 0 => d | S k' => upd (inner k' i d) (i * md + k') (v i k') end.
Fixpoint outer (i : nat) (d : nat -> A) : nat -> A :=                  (* i = number of rows done *)
  match i with 0 => d | S i' => inner K i' (outer i' d) end.

Lemma inner_spec k i d : k <= K -> forall x,
  inner k i d x = if (i * md <=? x) && (x <? i * md + k) then v i (x - i * md) else d x.
Proof.
  induction k as [|k IH]; intros Hk x; cbn [inner].
  - destruct (i * md <=? x) eqn:E1, (x <? i * md + 0) eqn:E2; cbn [andb]; auto.
    apply Nat.leb_le in E1. apply Nat.ltb_lt in E2. lia.
  - destruct (Nat.eq_dec x (i * md + k)) as [->|Hne].
    + rewrite upd_same. replace (i * md <=? i * md + k) with true by (symmetry; apply Nat.leb_le; lia).
      replace (i * md + k <? i * md + S k) with true by (symmetry; apply Nat.ltb_lt; lia).
      cbn [andb]. f_equal. lia.
    + rewrite upd_other by auto. rewrite IH by lia.
      destruct (i * md <=? x) eqn:E1; cbn [andb]; auto.
      apply Nat.leb_le in E1.
      destruct (Nat.ltb_spec x (i * md + k)) as [E2|E2], (Nat.ltb_spec x (i * md + S k)) as [E3|E3]; auto; exfalso; lia.
Qed.

(* the block-copy specification: position (r, c) of the destination, r any row, c < md *)
Theorem outer_spec I d : forall r c, c < md ->
  outer I d (r * md + c) = if (r <? I) && (c <? K) then v r c else d (r * md + c).
Proof.
  induction I as [|I IH]; intros r c Hc; cbn [outer]; [reflexivity|].
  rewrite inner_spec by lia.
  destruct (Nat.lt_trichotomy r I) as [Hlt|[->|Hgt]].
  - (* earlier row: untouched by row I *)
    replace (I * md <=? r * md + c) with false by (symmetry; apply Nat.leb_gt; nia). cbn [andb].
    rewrite IH by auto. replace (r <? I) with true by (symmetry; apply Nat.ltb_lt; lia).
    replace (r <? S I) with true by (symmetry; apply Nat.ltb_lt; lia). reflexivity.
  - replace (I * md <=? I * md + c) with true by (symmetry; apply Nat.leb_le; lia).
    replace (I <? S I) with true by (symmetry; apply Nat.ltb_lt; lia). cbn [andb].
    replace (I * md + c - I * md) with c by lia.
    destruct (c <? K) eqn:E.
    + replace (I * md + c <? I * md + K) with true by (symmetry; apply Nat.ltb_lt; apply Nat.ltb_lt in E; lia). reflexivity.
    + replace (I * md + c <? I * md + K) with false by (symmetry; apply Nat.ltb_ge; apply Nat.ltb_ge in E; lia).
      rewrite IH by auto. replace (I <? I) with false by (symmetry; apply Nat.ltb_irrefl). reflexivity.
  - replace (r * md + c <? I * md + K) with false by (symmetry; apply Nat.ltb_ge; nia).
    rewrite Bool.andb_false_r. rewrite IH by auto.
    replace (r <? I) with false by (symmetry; apply Nat.ltb_ge; lia).
    replace (r <? S I) with false by (symmetry; apply Nat.ltb_ge; lia). reflexivity.
Qed.
End DL.

(* instances: every index used is inside its buffer, for every pair of shapes *)
Section Bounds.
Variables Md md Ms ms : nat.            (* dst: Md x md, src: Ms x ms in storage terms *)
(* same order: I = min Md Ms, K = min md ms; reads src[i*ms + k], writes dst[i*md + k] *)
Lemma same_order_in_bounds i k : i < Nat.min Md Ms -> k < Nat.min md ms ->
  i * md + k < Md * md /\ i * ms + k < Ms * ms.
Proof. intros Hi Hk. split; nia. Qed.
(* different orders: I = min Md ms, K = min md Ms; reads src[i + k*ms] (skip i, step ms), writes dst[i*md + k] *)
Lemma cross_order_in_bounds i k : i < Nat.min Md ms -> k < Nat.min md Ms ->
  i * md + k < Md * md /\ i + k * ms < Ms * ms /\ 0 < ms.
Proof. intros Hi Hk. repeat split; nia. Qed.
End Bounds.
Print Assumptions outer_spec.
