(* Feasibility prototype (design round): finding F4.  For zero-sized T the mutable vector iterators
   count with fake addresses (src/iter/iter_mut.rs:127-135, 161-171, 205-215).  Starting the counter
   at NonNull::dangling() = align_of::<T>() overflows / reaches null for align >= 2 and ~usize::MAX
   elements; starting it at 1 (planned fix) never does.  Width-parametric: UMAX abstract. *)
From Coq Require Import ZArith Lia Bool.
Open Scope Z_scope.

Inductive res (A : Type) := Val (a : A) | Panic (why : Z) | UB (why : Z).
Arguments Val {A} a. Arguments Panic {A} why. Arguments UB {A} why.
Definition bind {A B} (x : res A) (k : A -> res B) : res B :=
  match x with Val a => k a | Panic w => Panic w | UB w => UB w end.
Notation "'let*' x ':=' e 'in' k" := (bind e (fun x => k)) (at level 200, x pattern, e at level 100, k at level 200).
Inductive mode := Debug | Release.

Section Z.
Variable UMAX : Z.
Variable md : mode.
Definition wrap (x : Z) := x mod (UMAX + 1).
Definition uadd (a b : Z) : res Z := if a + b <=? UMAX then Val (a + b) else match md with Debug => Panic 1 | Release => Val (wrap (a + b)) end.
Definition usub (a b : Z) : res Z := if b <=? a then Val (a - b) else match md with Debug => Panic 2 | Release => Val (wrap (a - b)) end.
Definition umul (a b : Z) : res Z := if a * b <=? UMAX then Val (a * b) else match md with Debug => Panic 3 | Release => Val (wrap (a * b)) end.
Definition nonnull_new_unchecked (a : Z) : res Z := if a =? 0 then UB 10 else Val a.

(* IterVectorsMut::assemble, size_of::<T>() == 0 arm; [start] = address the counter starts from *)
Definition assemble_zst (start axis_stride axis_length : Z) : res (Z * Z) :=
  let lower := start in
  let* t := usub axis_length 1 in
  let* offset := umul axis_stride t in
  let* addr := uadd lower offset in
  let* upper := nonnull_new_unchecked addr in
  Val (lower, upper).
(* next_back, ZST arm, non-final step *)
Definition step_back_zst (upper stride : Z) : res Z := let* addr := usub upper stride in nonnull_new_unchecked addr.
Definition step_fwd_zst (lower stride : Z) : res Z := let* addr := uadd lower stride in nonnull_new_unchecked addr.
End Z.

(* after the fix: start = 1.  offset < size <= UMAX is what Coh gives for both axes *)
Theorem assemble_zst_fixed UMAX md stride len size :
  0 < stride -> 0 < len -> stride * (len - 1) < size -> size <= UMAX ->
  assemble_zst UMAX md 1 stride len = Val (1, 1 + stride * (len - 1)) /\ 1 <= 1 + stride * (len - 1) <= UMAX.
Proof.
  intros Hs Hl Hoff Hsz. unfold assemble_zst, usub, umul, uadd, nonnull_new_unchecked, bind.
  assert (1 <=? len = true) as -> by lia.
  assert (0 <= stride * (len - 1)) by nia.
  assert (stride * (len - 1) <=? UMAX = true) as -> by lia.
  assert (1 + stride * (len - 1) <=? UMAX = true) as -> by lia.
  assert (1 + stride * (len - 1) =? 0 = false) as -> by lia.
  split; [reflexivity | lia].
Qed.

(* every counter value between the two ends is a legal non-null address, so stepping never fails *)
Theorem steps_zst_fixed UMAX md stride lo up :
  0 < stride -> 1 <= lo -> lo < up -> up <= UMAX -> (up - lo) mod stride = 0 ->
  step_fwd_zst UMAX md lo stride = Val (lo + stride) /\ step_back_zst UMAX md up stride = Val (up - stride)
  /\ lo + stride <= up /\ lo <= up - stride.
Proof.
  intros Hs Hlo Hlt Hup Hmod.
  assert (stride <= up - lo).
  { destruct (Z_lt_le_dec (up - lo) stride) as [L|L]; [|lia]. rewrite Z.mod_small in Hmod by lia. lia. }
  unfold step_fwd_zst, step_back_zst, uadd, usub, nonnull_new_unchecked, bind.
  assert (lo + stride <=? UMAX = true) as -> by lia.
  assert (lo + stride =? 0 = false) as -> by lia.
  assert (stride <=? up = true) as -> by lia.
  assert (up - stride =? 0 = false) as -> by lia.
  repeat split; lia.
Qed.

(* pinned tree: start = align.  64-bit witness = Matrix::from_row(vec![[0u64;0]; usize::MAX]).iter_cols_mut() *)
Definition U64 : Z := 18446744073709551615.
Example F4_debug_panics : assemble_zst U64 Debug 8 1 U64 = Panic 1.
Proof. vm_compute. reflexivity. Qed.
Example F4_release_wraps : assemble_zst U64 Release 8 1 U64 = Val (8, 6).
Proof. vm_compute. reflexivity. Qed.
Fixpoint backs (n : nat) (up : Z) : res Z := match n with O => Val up | S n' => let* u := step_back_zst U64 Release up 1 in backs n' u end.
Example F4_release_null_on_6th_next_back : backs 5 6 = Val 1 /\ backs 6 6 = UB 10.
Proof. split; vm_compute; reflexivity. Qed.
(* with align 1 (e.g. `()`) the pinned code is fine: the hypothesis the proof needs is al + offset <= UMAX *)
Theorem assemble_zst_pinned_needs UMAX md al stride len :
  0 < al -> 0 < stride -> 0 < len -> al + stride * (len - 1) <= UMAX ->
  assemble_zst UMAX md al stride len = Val (al, al + stride * (len - 1)).
Proof.
  intros Ha Hs Hl Hfit. unfold assemble_zst, usub, umul, uadd, nonnull_new_unchecked, bind.
  assert (1 <=? len = true) as -> by lia.
  assert (0 <= stride * (len - 1)) by nia.
  assert (stride * (len - 1) <=? UMAX = true) as -> by lia.
  assert (al + stride * (len - 1) <=? UMAX = true) as -> by lia.
  assert (al + stride * (len - 1) =? 0 = false) as -> by lia.
  reflexivity.
Qed.
Print Assumptions assemble_zst_fixed.
Print Assumptions F4_release_null_on_6th_next_back.
